"""Shared oracle helpers: attribute schema discrepancy items to the model
option that owns them (mechanism evidence for classification)."""
import re

from . import specs as S


def table_owner(spec, table):
    """-> ('model', app, model, None) | ('m2m', app, model, field) | None."""
    for app, mods in spec.items():
        for m, ms in mods.items():
            if S.model_table(spec, app, m) == table:
                return ('model', app, m, None)
            for fn, fd in ms['fields']:
                if fd['kind'] == 'ManyToMany' and \
                        S.m2m_table(spec, app, m, fn, fd) == table:
                    return ('m2m', app, m, fn)
    return None


def _col_to_field(ms):
    out = {'id': ('id', {'kind': 'Auto'})}
    for fn, fd in ms['fields']:
        c = S.column_of(fn, fd)
        if c:
            out[c] = (fn, fd)
    return out


def index_origin(spec, table, cols, unique, where='', desc=None):
    own = table_owner(spec, table)
    if not own:
        return None
    if own[0] == 'm2m':
        return 'm2m'
    ms = spec[own[1]][own[2]]
    c2f = _col_to_field(ms)
    fields = []
    for c in cols:
        if c not in c2f:
            return None
        fields.append(c2f[c][0])
    meta = ms.get('meta') or {}
    plain = not where and not any(desc or [])
    if len(cols) == 1 and plain:
        fd = c2f[cols[0]][1]
        if unique and (fd.get('unique') or fd['kind'] == 'OneToOne'):
            return 'field_unique'
        if not unique and not fd.get('unique') and \
                fd['kind'] != 'OneToOne' and (fd.get('db_index') or (
                fd['kind'] == 'ForeignKey' and
                fd.get('db_index') is not False)):
            return 'field_index'
    if plain:
        for t in meta.get('unique_together') or []:
            if unique and list(t) == fields:
                return 'unique_together'
        for t in meta.get('index_together') or []:
            if not unique and list(t) == fields:
                return 'index_together'
    for ix in meta.get('indexes') or []:
        if not unique and [f.lstrip('-') for f in ix['fields']] == fields \
                and bool(where) == bool(ix.get('condition')):
            return 'meta_indexes'
    for c in meta.get('constraints') or []:
        if unique and c['type'] == 'unique' and \
                list(c['fields']) == fields and \
                bool(where) == bool(c.get('condition')):
            return 'meta_constraints'
    return None


def check_origin(spec, table, check):
    own = table_owner(spec, table)
    if not own or own[0] != 'model':
        return None
    ms = spec[own[1]][own[2]]
    for fn, fd in ms['fields']:
        if fd['kind'] == 'PositiveInteger':
            col = S.column_of(fn, fd)
            if check == '%s>=0' % col.lower():
                return 'positive_field'
    if (ms.get('meta') or {}).get('constraints'):
        return 'meta_constraints'
    return None


def attribute(items, target_spec, history_specs, rebuilt_tables):
    """Annotate schema items in place with origin / rebuilt evidence."""
    rebuilt = set(rebuilt_tables)
    for it in items:
        t = it.get('table')
        if t is not None:
            it['rebuilt'] = t in rebuilt
        if it['type'] in ('MISSING_INDEX', 'EXTRA_INDEX'):
            specs = [target_spec] if it['type'] == 'MISSING_INDEX' else \
                list(reversed(history_specs))
            for sp in specs:
                o = index_origin(sp, t, it['cols'], it['unique'],
                                 it.get('where'), it.get('desc'))
                if o:
                    it['origin'] = o
                    break
            else:
                it['origin'] = None
        elif it['type'] in ('MISSING_CHECK', 'EXTRA_CHECK'):
            specs = [target_spec] if it['type'] == 'MISSING_CHECK' else \
                list(reversed(history_specs))
            for sp in specs:
                o = check_origin(sp, t, it['check'])
                if o:
                    it['origin'] = o
                    break
            else:
                it['origin'] = None
        if t is not None:
            own = table_owner(target_spec, t)
            it['table_kind'] = own[0] if own else None
    return items


def related_closure(specs_list, named):
    """Models (app, name) that are named or related (either direction) to a
    named model in any of the given specs."""
    out = set(named)
    for sp in specs_list:
        for app, mods in sp.items():
            for m, ms in mods.items():
                for fn, fd in ms['fields']:
                    if fd.get('to'):
                        ta, tm = fd['to'].split('.')
                        if (app, m) in named:
                            out.add((ta, tm))
                        if (ta, tm) in named:
                            out.add((app, m))
    return out


def named_models(edits):
    out = set()
    for e in edits:
        for k in ('model', 'old', 'new'):
            if e['op'] in ('rename_field',) and k in ('old', 'new'):
                continue
            if k in e:
                out.add((e['app'], e[k]))
        if e['op'] == 'delete_app':
            out.add((e['app'], '*'))
    return out


def add_evidence(items, edits, history):
    """Mechanism evidence derived from the case itself (which edits it
    contains), attached to items so that known findings can be keyed by
    mechanism rather than by symptom alone."""
    renamed = set()        # (app, model) endpoints that went through a rename
    combo_tables = set()   # tables of models with a ChangeField changing
    #                        db_column together with db_index/unique
    for i, e in enumerate(edits):
        before, after = history[i], history[i + 1]
        if e['op'] == 'rename_model':
            renamed.add((e['app'], e['old']))
            renamed.add((e['app'], e['new']))
        if e['op'] == 'rename_app':
            for (a2, m2) in list(renamed):
                if a2 == e['app'] and (e.get('model_names') is None or
                                       m2 in e['model_names']):
                    renamed.add((e['new_app'], m2))
        if e['op'] == 'change_field' and 'db_column' in e['attrs'] and (
                'db_index' in e['attrs'] or 'unique' in e['attrs']):
            combo_tables.add(S.model_table(before, e['app'], e['model']))
    # follow renames so that evidence lands on the final table name
    for i, e in enumerate(edits):
        if e['op'] == 'rename_model':
            old_t = S.model_table(history[i], e['app'], e['old'])
            if old_t in combo_tables:
                combo_tables.add(S.model_table(history[i + 1], e['app'],
                                               e['new']))
    # per-field edit history keyed by final (table, column)
    fops = field_ops_by_column(edits, history)
    case_has_combo = bool(combo_tables)
    reuse = False
    seen_names = {}
    # (moved below: table-name reuse also counts)
    for app, mods in history[0].items():
        for m, ms in mods.items():
            seen_names[(app, m)] = set(n for n, _f in ms['fields'])
    seen_tables = set()
    for sp in history[:1]:
        for app, mods in sp.items():
            for m in mods:
                seen_tables.update(S.owned_tables(sp, app, m))
    for i, e in enumerate(edits):
        if e['op'] == 'rename_model':
            old_t = S.model_table(history[i], e['app'], e['old'])
            if e['db_table'] != old_t and e['db_table'] in seen_tables:
                # a table name that another model used before: the indexes
                # of that model still carry names derived from it
                reuse = True
            for app2, mods2 in history[i + 1].items():
                for m2 in mods2:
                    seen_tables.update(S.owned_tables(history[i + 1], app2,
                                                      m2))
            seen_names[(e['app'], e['new'])] = seen_names.pop(
                (e['app'], e['old']), set())
        if e['op'] == 'rename_app':
            for (a2, m2) in list(seen_names):
                if a2 == e['app'] and (e.get('model_names') is None or
                                       m2 in e['model_names']):
                    seen_names[(e['new_app'], m2)] = seen_names.pop((a2, m2))
        new_name = e.get('name') if e['op'] == 'add_field' else (
            e.get('new') if e['op'] == 'rename_field' else None)
        if new_name:
            k = (e['app'], e['model'])
            if new_name in seen_names.setdefault(k, set()):
                reuse = True
            seen_names[k].add(new_name)
    constraint_names = set()
    for sp in history:
        for app, mods in sp.items():
            for m, ms in mods.items():
                for c in (ms.get('meta') or {}).get('constraints') or []:
                    constraint_names.add(c['name'])
    for it in items:
        it['case_has_combo'] = case_has_combo
        it['case_reuses_field_name'] = reuse
        if it['type'] == 'EXEC_ERROR':
            m = re.match(r'no such index: (\S+)', it.get('msg') or '')
            if m:
                it['drop_target_is_constraint'] = m.group(1) in constraint_names
        t = it.get('table')
        cols = it.get('cols') or ([it['col']] if it.get('col') else [])
        if t is not None and cols:
            ops, kinds = [], []
            for c in cols:
                c = str(c)[5:] if str(c).startswith('expr:') else c
                rec = fops.get((t, c))
                if rec:
                    ops += [o for o in rec['ops'] if o not in ops]
                    kinds.append(rec['kind'])
            it['field_ops'] = ops
            it['field_kinds'] = kinds
        if it['type'] == 'EXEC_ERROR':
            step = it.get('step')
            if step is not None:
                e = edits[step]
                before = history[step]
                if e['op'] == 'rename_model':
                    ms = before[e['app']][e['old']]
                    it['model_has_m2m'] = any(
                        f['kind'] == 'ManyToMany' for _n, f in ms['fields'])
                if e['op'] == 'delete_app':
                    it['app_has_internal_relation'] = any(
                        f.get('to', '').startswith(e['app'] + '.')
                        for ms in before[e['app']].values()
                        for _n, f in ms['fields'])
                if e['op'] in ('change_field', 'rename_field',
                               'add_field', 'delete_field', 'change_meta'):
                    it['dbcol_index_combo'] = S.model_table(
                        before, e['app'], e['model']) in combo_tables
            continue
        if t is None:
            continue
        if t in combo_tables:
            it['dbcol_index_combo'] = True
        if it['type'] == 'EXTRA_INDEX' and it['cols'] and \
                str(it['cols'][0]).startswith('expr:'):
            it['expr_literal'] = True
        if it.get('table_kind') == 'm2m' or it.get('origin') == 'm2m':
            for sp in reversed(history):
                own = table_owner(sp, t)
                if own and own[0] == 'm2m':
                    fd = S.get_field(sp, own[1], own[2], own[3])
                    ta, tm = fd['to'].split('.')
                    it['endpoint_renamed'] = (
                        (own[1], own[2]) in renamed or (ta, tm) in renamed)
                    break
    mark_multi_owner(items, history, edits)
    return items


def field_ops_by_column(edits, history):
    """{(final table, final column): {'ops': [op kinds], 'kind': field kind}}
    following field/model renames and db_column changes through the case.
    Columns that an index was (wrongly) created on under an old name are also
    registered under every earlier column name of the field."""
    from . import seqcase
    recs = {}     # id -> {'ops', 'kind', 'names': set((table, col))}
    cur = {}      # (app, model, field) -> id
    nxt = [0]

    def reg(spec, app, m, fn):
        fd = S.get_field(spec, app, m, fn)
        key = (app, m, fn)
        if key not in cur:
            cur[key] = nxt[0]
            recs[nxt[0]] = {'ops': [], 'kind': fd['kind'], 'names': set()}
            nxt[0] += 1
        r = recs[cur[key]]
        r['kind'] = fd['kind']
        c = S.column_of(fn, fd)
        if c:
            r['names'].add((S.model_table(spec, app, m), c))
        return r

    def reg_all(spec):
        for app, mods in spec.items():
            for m, ms in mods.items():
                for fn, _fd in ms['fields']:
                    reg(spec, app, m, fn)

    reg_all(history[0])
    for i, e in enumerate(edits):
        after = history[i + 1]
        kind = seqcase.op_kinds([e])[0]
        if e['op'] == 'rename_field':
            k = (e['app'], e['model'], e['old'])
            if k in cur:
                cur[(e['app'], e['model'], e['new'])] = cur.pop(k)
                recs[cur[(e['app'], e['model'], e['new'])]]['ops'].append(kind)
        elif e['op'] == 'rename_model':
            for k in list(cur):
                if k[0] == e['app'] and k[1] == e['old']:
                    cur[(e['app'], e['new'], k[2])] = cur.pop(k)
        elif e['op'] == 'delete_field':
            k = (e['app'], e['model'], e['name'])
            if k in cur:
                recs[cur[k]]['ops'].append(kind)
                cur.pop(k)
        elif e['op'] in ('change_field',):
            k = (e['app'], e['model'], e['name'])
            if k in cur:
                recs[cur[k]]['ops'].append(kind)
        elif e['op'] == 'add_field':
            pass
        elif e['op'] == 'delete_model':
            for k in list(cur):
                if k[0] == e['app'] and k[1] == e['model']:
                    cur.pop(k)
        elif e['op'] == 'delete_app':
            for k in list(cur):
                if k[0] == e['app']:
                    cur.pop(k)
        reg_all(after)
        if e['op'] == 'add_field':
            k = (e['app'], e['model'], e['name'])
            if k in cur:
                recs[cur[k]]['ops'].append(kind)
    out = {}
    for r in recs.values():
        for name in r['names']:
            o = out.setdefault(name, {'ops': [], 'kind': r['kind']})
            o['ops'] += [x for x in r['ops'] if x not in o['ops']]
            o['kind'] = r['kind']
    return out


def column_list_owners(spec, table):
    """{tuple(columns): set(origins)} for every index-like object the model
    behind table declares (field index/unique, unique_together,
    index_together, Meta.indexes, Meta UniqueConstraints)."""
    own = table_owner(spec, table)
    out = {}
    if not own or own[0] != 'model':
        return out
    ms = spec[own[1]][own[2]]
    f2c = {}
    for fn, fd in ms['fields']:
        c = S.column_of(fn, fd)
        if c:
            f2c[fn] = c
            if fd.get('unique') or fd['kind'] == 'OneToOne':
                out.setdefault((c,), set()).add('field_unique')
            elif fd.get('db_index') or (fd['kind'] == 'ForeignKey' and
                                        fd.get('db_index') is not False):
                out.setdefault((c,), set()).add('field_index')
    meta = ms.get('meta') or {}
    for key, origin in (('unique_together', 'unique_together'),
                        ('index_together', 'index_together')):
        for t in meta.get(key) or []:
            if all(f in f2c for f in t):
                out.setdefault(tuple(f2c[f] for f in t), set()).add(origin)
    for i, ix in enumerate(meta.get('indexes') or []):
        fs = [f.lstrip('-') for f in ix['fields']]
        if all(f in f2c for f in fs):
            out.setdefault(tuple(f2c[f] for f in fs), set()).add(
                'meta_indexes:%s' % ix['name'])
    for c in meta.get('constraints') or []:
        if c['type'] == 'unique' and all(f in f2c for f in c['fields']):
            out.setdefault(tuple(f2c[f] for f in c['fields']), set()).add(
                'meta_constraints:%s' % c['name'])
    return out


def mark_multi_owner(items, history, edits=()):
    """Evidence: at some point of the case the item's column list was claimed
    by two or more index-like objects of the model (tables are followed
    through later RenameModel edits)."""
    def final_table(i, app, m):
        name = m
        for e in list(edits)[i:]:
            if e['op'] == 'rename_model' and e['app'] == app and \
                    e['old'] == name:
                name = e['new']
            elif e['op'] == 'delete_model' and e['app'] == app and \
                    e.get('model') == name:
                return None
        last = history[-1]
        if name in last.get(app, {}):
            return S.model_table(last, app, name)
        return None

    multi = set()        # (final table, cols)
    for i, sp in enumerate(history):
        for app, mods in sp.items():
            for m in mods:
                t_now = S.model_table(sp, app, m)
                t_fin = final_table(i, app, m) or t_now
                for cols, owners in column_list_owners(sp, t_now).items():
                    if len(owners) >= 2:
                        multi.add((t_fin, cols))
                        multi.add((t_now, cols))
    for it in items:
        if it['type'] not in ('MISSING_INDEX', 'EXTRA_INDEX'):
            continue
        cols = tuple(str(c)[5:] if str(c).startswith('expr:') else c
                     for c in it['cols'])
        it['cols_multi_owner'] = (it['table'], cols) in multi
    return items
