"""Model specs (plain JSON) -> dynamic Django model classes, signatures, tables.

spec := {app_label: {ModelName: {'fields': [[name, fdef], ...], 'meta': {...}}}}
fdef := {'kind': Char|Text|Integer|BigInteger|PositiveInteger|Boolean|Decimal|
                 DateTime|ForeignKey|OneToOne|ManyToMany,
         'null','db_index','unique','db_column','max_length','max_digits',
         'decimal_places','to' ('app.Model'), 'db_table' (M2M only)}
meta := {'unique_together': [[f,..],..], 'index_together': [[f,..],..],
         'indexes': [{'fields': [...], 'name': str, 'condition': qspec|None}],
         'constraints': [{'type': 'check', 'name', 'check': qspec} |
                         {'type': 'unique', 'name', 'fields': [...],
                          'condition': qspec|None}],
         'db_table': str|None}
qspec := ['gt'|'gte'|'lt'|'exact'|'isnull', field, value] | ['and'|'or', q, q]
         | ['not', q]
Every model has the implicit AutoField primary key ``id`` unless a field
carries 'primary_key': True (only in hand-built cases: C11 mode 'pk').
"""
import copy
import json

KINDS = ('Char', 'Text', 'Integer', 'BigInteger', 'PositiveInteger',
         'Boolean', 'Decimal', 'DateTime', 'ForeignKey', 'OneToOne',
         'ManyToMany')
REL_KINDS = ('ForeignKey', 'OneToOne', 'ManyToMany')


CUSTOM_KINDS = ('TagField', 'CodeField', 'NoteField')


def field_class(kind):
    from django.db import models
    if kind in CUSTOM_KINDS:
        # custom CharField subclasses (hand-built cases only)
        from . import customfields
        return getattr(customfields, kind)
    return {
        'Char': models.CharField, 'Text': models.TextField,
        'Integer': models.IntegerField, 'BigInteger': models.BigIntegerField,
        'PositiveInteger': models.PositiveIntegerField,
        'Boolean': models.BooleanField, 'Decimal': models.DecimalField,
        'DateTime': models.DateTimeField, 'ForeignKey': models.ForeignKey,
        'OneToOne': models.OneToOneField,
        'ManyToMany': models.ManyToManyField,
    }[kind]


def kind_of_class(cls):
    for k in KINDS:
        if field_class(k) is cls:
            return k
    raise KeyError(cls)


def q_from_spec(qs):
    from django.db.models import Q
    op = qs[0]
    if op == 'and':
        return q_from_spec(qs[1]) & q_from_spec(qs[2])
    if op == 'or':
        return q_from_spec(qs[1]) | q_from_spec(qs[2])
    if op == 'not':
        return ~q_from_spec(qs[1])
    return Q(**{'%s__%s' % (qs[1], op): qs[2]})


def field_kwargs(fdef):
    """Constructor kwargs for a field definition (schema-relevant only)."""
    from django.db import models
    kind = fdef['kind']
    kw = {}
    for a in ('null', 'db_index', 'unique', 'db_column', 'max_length',
              'max_digits', 'decimal_places', 'primary_key'):
        if fdef.get(a) is not None:
            kw[a] = fdef[a]
    if kind in REL_KINDS:
        kw['to'] = fdef['to']
        if kind != 'ManyToMany':
            kw['on_delete'] = models.CASCADE
        else:
            kw.pop('null', None)
            if fdef.get('db_table'):
                kw['db_table'] = fdef['db_table']
        kw['related_name'] = '+'
    return kw


def make_field(fdef):
    cls = field_class(fdef['kind'])
    if fdef['kind'] == 'ManyToMany' and fdef.get('subclass'):
        from .customfields import SubM2M as cls
    return cls(**field_kwargs(fdef))


def make_meta_objects(meta):
    """Return (indexes, constraints) lists of Django objects."""
    from django.db import models
    indexes = []
    for ix in meta.get('indexes') or []:
        if ix.get('lower'):
            # functional index (hand-built cases only)
            from django.db.models.functions import Lower
            indexes.append(models.Index(Lower(ix['lower']),
                                        name=ix['name']))
            continue
        kw = {'fields': list(ix['fields']), 'name': ix['name']}
        if ix.get('condition'):
            kw['condition'] = q_from_spec(ix['condition'])
        indexes.append(models.Index(**kw))
    constraints = []
    for c in meta.get('constraints') or []:
        if c['type'] == 'check':
            constraints.append(models.CheckConstraint(
                check=q_from_spec(c['check']), name=c['name']))
        else:
            kw = {'fields': list(c['fields']), 'name': c['name']}
            if c.get('condition'):
                kw['condition'] = q_from_spec(c['condition'])
            constraints.append(models.UniqueConstraint(**kw))
    return indexes, constraints


def clear_lab_models(app_labels=None):
    from django.apps import apps
    from .labenv import LAB_APPS
    for app in (app_labels or LAB_APPS):
        apps.all_models[app].clear()
    apps._pending_operations.clear()
    apps.clear_cache()


def build_models(spec):
    """Register the spec's models (replacing any earlier lab models).

    Returns {(app, ModelName): cls} in spec order.
    """
    from django.apps import apps
    from django.db import models
    clear_lab_models()
    out = {}
    for app, mods in spec.items():
        for mname, mspec in mods.items():
            meta = mspec.get('meta') or {}
            meta_attrs = {'app_label': app}
            if meta.get('db_table'):
                meta_attrs['db_table'] = meta['db_table']
            if meta.get('db_table_comment'):
                meta_attrs['db_table_comment'] = meta['db_table_comment']
            if meta.get('unique_together'):
                meta_attrs['unique_together'] = [
                    tuple(t) for t in meta['unique_together']]
            if meta.get('index_together'):
                meta_attrs['index_together'] = [
                    tuple(t) for t in meta['index_together']]
            idx, cons = make_meta_objects(meta)
            if idx:
                meta_attrs['indexes'] = idx
            if cons:
                meta_attrs['constraints'] = cons
            attrs = {'__module__': app + '.models',
                     'Meta': type('Meta', (), meta_attrs)}
            for fname, fdef in mspec['fields']:
                attrs[fname] = make_field(fdef)
            out[(app, mname)] = type(str(mname), (models.Model,), attrs)
    apps.clear_cache()
    assert not apps._pending_operations, apps._pending_operations
    return out


def project_sig(model_classes, apps_order=None):
    """Real ProjectSignature of the given classes (one AppSignature per app,
    auto-created M2M tables are covered by their field signatures)."""
    from django_evolution.signature import AppSignature, ProjectSignature
    psig = ProjectSignature()
    by_app = {}
    for (app, _n), cls in model_classes.items():
        by_app.setdefault(app, []).append(cls)
    for app in (apps_order or by_app):
        asig = AppSignature(app_id=app)
        for cls in by_app.get(app, []):
            asig.add_model(cls)
        psig.add_app_sig(asig)
    return psig


def create_tables(model_classes, alias):
    from django.db import connections
    with connections[alias].schema_editor() as se:
        for cls in model_classes.values():
            se.create_model(cls)


# ------------------------------------------------------------------ helpers

def default_table(app, mname):
    return ('%s_%s' % (app, mname)).lower()


def model_table(spec, app, mname):
    return (spec[app][mname].get('meta') or {}).get('db_table') or \
        default_table(app, mname)


def column_of(fname, fdef):
    if fdef['kind'] == 'ManyToMany':
        return None
    if fdef.get('db_column'):
        return fdef['db_column']
    if fdef['kind'] in ('ForeignKey', 'OneToOne'):
        return fname + '_id'
    return fname


def m2m_table(spec, app, mname, fname, fdef):
    return fdef.get('db_table') or '%s_%s' % (model_table(spec, app, mname),
                                              fname)


def m2m_columns(app, mname, to_app, to_model):
    """Column names Django gives the two FK columns of an auto M2M table."""
    # Django compares the model *names* only (also across apps)
    if to_model.lower() == mname.lower():
        return ('from_%s_id' % mname.lower(), 'to_%s_id' % mname.lower())
    return ('%s_id' % mname.lower(), '%s_id' % to_model.lower())


def owned_tables(spec, app, mname):
    """Tables owned by a model: its own + auto M2M tables."""
    t = [model_table(spec, app, mname)]
    for fname, fdef in spec[app][mname]['fields']:
        if fdef['kind'] == 'ManyToMany':
            t.append(m2m_table(spec, app, mname, fname, fdef))
    return t


def get_field(spec, app, mname, fname):
    for n, f in spec[app][mname]['fields']:
        if n == fname:
            return f
    return None


def canon(obj):
    return json.dumps(obj, sort_keys=True, default=str)


def clone(spec):
    return copy.deepcopy(spec)
