"""Run one generated mutation sequence through the real code along several
paths and record what each path did (shared by C03 and C18):

  A   one AppMutator + fresh DatabaseState scan + execution per mutation
  B   one AppMutator for the whole sequence (the optimiser runs), execution
  B2  the *same mutation objects* processed a second time on an identical
      database (definitions must not have been altered by B)
"""
import copy

from . import dbsnap, edits as E, seqcase, siglab
from . import specs as S

MERGEABLE_EDIT = ('add_field', 'delete_field', 'change_field', 'change_meta')


class PreprocessRecorder(object):
    """Wraps AppMutator._preprocess_mutations to record input vs output
    (which optimiser rules fired)."""

    def __init__(self):
        self.calls = []
        self._orig = None

    def __enter__(self):
        from django_evolution.mutators import AppMutator
        rec = self
        self._orig = AppMutator._preprocess_mutations
        # the optimiser works on copies of the definitions: follow them
        self._orig_copy = getattr(AppMutator, '_copy_mutation', None)
        origin = {}
        keep = []

        if self._orig_copy is not None:
            def copying(am, mutation):
                new = rec._orig_copy(am, mutation)
                origin[id(new)] = id(mutation)
                keep.append(new)
                return new
            AppMutator._copy_mutation = copying

        def wrapped(am, mutations):
            before = [(id(m), str(m)) for m in mutations]
            out = rec._orig(am, mutations)
            after = [(origin.get(id(m), id(m)), str(m)) for m in out]
            rec.calls.append({'in': before, 'out': after})
            return out
        AppMutator._preprocess_mutations = wrapped
        return self

    def __exit__(self, *a):
        from django_evolution.mutators import AppMutator
        AppMutator._preprocess_mutations = self._orig
        if self._orig_copy is not None:
            AppMutator._copy_mutation = self._orig_copy

    def rules(self):
        """Coarse names of what the optimiser did."""
        fired = set()
        for c in self.calls:
            ids_in = [i for i, _s in c['in']]
            ids_out = [i for i, _s in c['out']]
            if len(ids_out) < len(ids_in):
                fired.add('removed')
            s_in = dict(c['in'])
            for i, s in c['out']:
                if i in s_in and s_in[i] != s:
                    fired.add('rewritten')
            kept = [i for i in ids_in if i in set(ids_out)]
            if kept != ids_out:
                fired.add('reordered')
        return sorted(fired)


class MergeRecorder(object):
    """Records every _are_ops_mergeable(op1, op2) decision."""

    def __init__(self):
        self.pairs = {}
        self._orig = None

    def __enter__(self):
        from django_evolution.db.common import BaseEvolutionOperations as B
        rec = self
        self._orig = B._are_ops_mergeable

        def wrapped(ev, op1, op2):
            r = rec._orig(ev, op1, op2)
            k = '%s|%s|%s' % (op1['type'], op2['type'], int(bool(r)))
            rec.pairs[k] = rec.pairs.get(k, 0) + 1
            return r
        B._are_ops_mergeable = wrapped
        return self

    def __exit__(self, *a):
        from django_evolution.db.common import BaseEvolutionOperations as B
        B._are_ops_mergeable = self._orig


def canonical_rebuilds(trace_list):
    """{final table name: rebuild count} following table renames."""
    names = {}      # current name -> canonical id (first name seen)
    counts = {}
    for tr in trace_list:
        for e in tr.events:
            if not e['ok']:
                continue
            m = siglab.RENAME_TABLE_RE.match(e['sql'])
            if not m:
                continue
            old, new = m.group(1), m.group(2)
            if old == 'TEMP_TABLE':
                cid = names.setdefault(new, new)
                counts[cid] = counts.get(cid, 0) + 1
            else:
                cid = names.pop(old, old)
                names[new] = cid
    # report under the final name
    final = {}
    for cur, cid in names.items():
        if cid in counts:
            final[cur] = final.get(cur, 0) + counts[cid]
    for cid, n in counts.items():
        if cid not in names.values():
            final[cid] = final.get(cid, 0) + n
    return final


def run_paths(case, app='app1', with_b2=True, with_p=False):
    """-> observations dict (JSON-able apart from 'sigs')."""
    spec0, edits, rows = case['spec0'], case['edits'], case.get('rows')
    history = [spec0]
    for e in edits:
        history.append(E.apply_edit(history[-1], e))
    obs = {'history': history}

    # ---- path A
    labA = siglab.Lab('default')
    labA.start(spec0, rows)
    base = labA.snapshot()
    S.build_models(history[-1])
    tracesA, a_err = [], None
    per_mut_rebuilds = []
    for i, e in enumerate(edits):
        m = E.to_mutation(history[i], e)
        r = labA.evolve(e['app'], [m], optimise=True)
        tracesA.append(r['trace'])
        per_mut_rebuilds.append(r['trace'].rebuilds())
        if not r['ok']:
            a_err = r['error']
            a_err['step'] = i
            a_err['op'] = seqcase.op_kinds([e])[0]
            break
    obs['a_error'] = a_err
    obs['a_per_mut_rebuilds'] = per_mut_rebuilds
    if a_err is None:
        obs['a_snap'] = labA.snapshot()
        obs['a_sig'] = labA.psig
        obs['a_rebuilds'] = canonical_rebuilds(tracesA)
        obs['a_statements'] = sum(len(t.mutating()) for t in tracesA)
    else:
        return obs

    # ---- path B: same start, fresh mutation objects, one optimised run
    labB = siglab.Lab('alt')
    labB.start(spec0, rows)
    S.build_models(history[-1])
    muts = [E.to_mutation(history[i], e) for i, e in enumerate(edits)]
    before_str = [str(m) for m in muts]
    before_attrs = [copy.deepcopy({k: v for k, v in vars(m).items()
                                   if not callable(v)}) for m in muts]
    with PreprocessRecorder() as pre, MergeRecorder() as mrg:
        rB = labB.evolve(app, muts, optimise=True)
    obs['rules'] = pre.rules()
    obs['merge_pairs'] = mrg.pairs
    obs['b_error'] = rB['error']
    obs['b_rebuilds'] = canonical_rebuilds([rB['trace']])
    obs['b_statements'] = len(rB['trace'].mutating())
    after_str = [str(m) for m in muts]
    mutated = []
    for i, m in enumerate(muts):
        if before_str[i] != after_str[i]:
            mutated.append({'i': i, 'before': before_str[i],
                            'after': after_str[i]})
        else:
            now = {k: v for k, v in vars(m).items() if not callable(v)}
            for k in now:
                try:
                    same = now[k] == before_attrs[i].get(k)
                except Exception:
                    same = True
                if not same:
                    mutated.append({'i': i, 'attr': k,
                                    'before': repr(before_attrs[i].get(k))[:80],
                                    'after': repr(now[k])[:80]})
    obs['definitions_mutated'] = mutated
    if rB['ok']:
        obs['b_snap'] = labB.snapshot()
        obs['b_sig'] = labB.psig
        # ---- path B2: the same objects again, identical start database
        if with_b2:
            labC = siglab.Lab('fresh')
            labC.start(spec0, rows)
            S.build_models(history[-1])
            rC = labC.evolve(app, muts, optimise=True)
            obs['b2_error'] = rC['error']
            if rC['ok']:
                obs['b2_snap'] = labC.snapshot()
                obs['b2_sig'] = labC.psig
    if with_p:
        # ---- path P: the real Evolver task pipeline over evolutions that
        # are discovered the normal way (fresh mutation objects)
        from . import pipelab
        S.build_models(history[-1])
        pm = [E.to_mutation(history[i], e) for i, e in enumerate(edits)]
        rP = pipelab.run(spec0, rows, history[-1], {app: pm})
        obs['p_error'] = rP['error']
        obs['p_required'] = rP.get('evolution_required')
        obs['p_rebuilds'] = canonical_rebuilds([rP['trace']])
        obs['p_statements'] = len(rP['trace'].mutating())
        obs['p_filter_dropped'] = rP['filter_dropped']
        obs['p_created_tables'] = rP['created_tables']
        obs['p_new_models'] = rP['new_models']
        if rP['ok']:
            obs['p_snap'] = rP['snap']
            obs['p_sig'] = rP['sig']
            obs['p_labels'] = rP['labels']
    return obs


def snap_rows_diff(got, exp):
    items = []
    for t in sorted(set(got) & set(exp)):
        g = {r.get('id'): r for r in got[t].get('rows', [])}
        e = {r.get('id'): r for r in exp[t].get('rows', [])}
        if set(g) != set(e):
            items.append({'type': 'ROW_COUNT', 'table': t, 'got': len(g),
                          'expected': len(e)})
            continue
        for pk, er in e.items():
            gr = g[pk]
            for c in sorted(set(er) & set(gr)):
                if er[c] != gr[c]:
                    items.append({'type': 'ROW_VALUE', 'table': t, 'col': c,
                                  'pk': pk, 'expected': repr(er[c])[:50],
                                  'got': repr(gr[c])[:50]})
                    break
    return items


def compare(got_snap, got_sig, exp_snap, exp_sig, tag):
    """Items for path-vs-path comparison (got vs exp)."""
    items = []
    eq, e1, e2, d1, d2 = siglab.sig_equal(exp_sig, got_sig)
    if not (e1 and e2):
        items.append({'type': 'SIG_DIFF', 'path': tag,
                      'diff': (d1 or d2)[:300]})
    for it in dbsnap.diff_schema(dbsnap.strip_rows(got_snap),
                                 dbsnap.strip_rows(exp_snap),
                                 count_duplicates=True):
        it['path'] = tag
        items.append(it)
    for it in snap_rows_diff(got_snap, exp_snap):
        it['path'] = tag
        items.append(it)
    return items


def mergeable_runs(edits, history):
    """[(app, model at run start, [edit indexes])] maximal runs of consecutive
    edits on one model made of non-M2M AddField/DeleteField, ChangeField
    without type change or db_column change, ChangeMeta."""
    runs, cur = [], None
    for i, e in enumerate(edits):
        ok = e['op'] in MERGEABLE_EDIT
        if ok and e['op'] == 'add_field' and \
                e['fdef']['kind'] == 'ManyToMany':
            ok = False
        if ok and e['op'] == 'delete_field' and S.get_field(
                history[i], e['app'], e['model'],
                e['name'])['kind'] == 'ManyToMany':
            ok = False
        if ok and e['op'] == 'change_field' and (
                e.get('new_kind') or 'db_column' in e['attrs']):
            ok = False
        key = (e['app'], e.get('model')) if ok else None
        if ok and cur and cur[0] == key:
            cur[1].append(i)
        else:
            if cur:
                runs.append(cur)
            cur = [key, [i]] if ok else None
    if cur:
        runs.append(cur)
    return [(k[0], k[1], idx) for k, idx in runs]
