"""In-process run of the real Evolver task pipeline (Evolver.__init__ ->
EvolveAppTask.prepare -> evolution graph -> _build_batches -> execute) over
evolutions that are discovered the normal way (an `evolutions` module with a
SEQUENCE and one module per label holding MUTATIONS), used as path "P" of the
sequence checks.

The evolution modules are module objects placed in sys.modules for the
duration of one run (nothing is written to disk); get_evolution_sequence(),
get_app_mutations() and the pending-mutation filter see them exactly as they
would see files.
"""
import sqlite3
import sys
import types

from . import dbsnap, siglab
from . import specs as S

_TEMPLATE = {}


def _template(alias='default'):
    """Per process: a database installed by the real Evolver while no lab
    model is registered (contenttypes through its migrations, the
    django_evolution tables, a baseline Version)."""
    if alias not in _TEMPLATE:
        from django_evolution.evolve import Evolver
        from .labenv import reset_db
        conn = reset_db(alias)
        S.build_models({})
        ev = Evolver(database_name=alias)
        ev.queue_evolve_all_apps()
        ev.evolve()
        t = sqlite3.connect(':memory:')
        conn.connection.backup(t)
        _TEMPLATE[alias] = t
    return _TEMPLATE[alias]


class EvolutionModules(object):
    """Install {app: [(label, [mutation objects])]} as importable
    `<app>.evolutions` packages for the duration of a with-block."""

    def __init__(self, per_app):
        self.per_app = per_app
        self.names = []

    def __enter__(self):
        for app, evolutions in self.per_app.items():
            pkg = types.ModuleType('%s.evolutions' % app)
            pkg.__file__ = '/nonexistent/%s/evolutions/__init__.py' % app
            pkg.__path__ = []
            pkg.SEQUENCE = [label for label, _m in evolutions]
            sys.modules[pkg.__name__] = pkg
            self.names.append(pkg.__name__)
            for label, muts in evolutions:
                mod = types.ModuleType('%s.evolutions.%s' % (app, label))
                mod.__file__ = '/nonexistent/%s/evolutions/%s.py' % (app,
                                                                      label)
                mod.MUTATIONS = muts
                sys.modules[mod.__name__] = mod
                setattr(pkg, label, mod)
                self.names.append(mod.__name__)
        return self

    def __exit__(self, *a):
        for n in self.names:
            sys.modules.pop(n, None)


def lab_tables(snap):
    return {t: e for t, e in snap.items() if not t.startswith('django_')}


def stored_lab_sig(alias, apps):
    """The stored signature (latest Version) restricted to the lab apps."""
    from django_evolution.models import Version
    from django_evolution.signature import ProjectSignature
    sig = Version.objects.current_version(using=alias).signature
    out = ProjectSignature()
    for app in apps:
        a = sig.get_app_sig(app)
        if a is not None:
            out.add_app_sig(a.clone())
    return out


def chunks(muts):
    """Split a mutation list into the evolutions e1.. of one app."""
    if len(muts) <= 2:
        return [('e1', list(muts))]
    k = len(muts) // 2
    return [('e1', list(muts[:k])), ('e2', list(muts[k:]))]


def run(spec0, rows, target_spec, per_app_muts, alias='default'):
    """-> dict(ok, error item|None, trace, snap, sig, labels, base_snap)."""
    from django.db import connections
    from django_evolution.evolve import Evolver
    from django_evolution.models import Evolution, Version
    from django_evolution.signature import ProjectSignature
    from .labenv import reset_db
    t = _template(alias)
    conn = reset_db(alias)
    t.backup(conn.connection)
    lab = siglab.Lab(alias)
    lab.conn = conn
    classes = S.build_models(spec0)
    S.create_tables(classes, alias)
    Version(signature=ProjectSignature.from_database(alias)).save(using=alias)
    if rows:
        lab.insert_rows(rows)
    out = {'base_snap': lab_tables(lab.snapshot())}
    S.build_models(target_spec)
    trace = siglab.StatementTrace()
    evolutions = {app: chunks(m) for app, m in per_app_muts.items()}
    err = None
    # recorder: what the pending-mutation filter removes
    from django_evolution.evolve import evolve_app_task as _eat
    from django_evolution.utils import evolutions as _evo
    orig_filter = _eat.get_app_pending_mutations
    dropped = []

    def recording_filter(*a, **kw):
        res = orig_filter(*a, **kw)
        try:
            full = _evo.get_app_mutations(
                app=kw.get('app'),
                evolution_labels=kw.get('evolution_labels'),
                database=kw.get('database'))
            kept = set(id(m) for m in res)
            dropped.extend(str(m) for m in full if id(m) not in kept)
        except Exception:
            pass
        return res
    _eat.get_app_pending_mutations = recording_filter
    # recorder: which models the task decides it has to create
    orig_inst = _eat.db_get_installable_models_for_app
    new_models = []

    def recording_inst(*a, **kw):
        res = orig_inst(*a, **kw)
        new_models.extend('%s.%s' % (m._meta.app_label, m._meta.object_name)
                          for m in res)
        return res
    _eat.db_get_installable_models_for_app = recording_inst
    with EvolutionModules(evolutions):
        try:
            with conn.execute_wrapper(trace):
                ev = Evolver(database_name=alias)
                ev.queue_evolve_all_apps()
                out['evolution_required'] = bool(ev.get_evolution_required())
                ev.evolve()
        except Exception as e:
            err = siglab.exc_item('P_ERROR', e)
        finally:
            # every case stands for a fresh process: prepare_tasks() leaves
            # its process-global custom-migration registry set when the
            # preparation raises (the next Evolver in the same process would
            # die on an assertion)
            from django_evolution.utils import migrations as _mg
            _mg._global_custom_migrations = None
            _eat.get_app_pending_mutations = orig_filter
            _eat.db_get_installable_models_for_app = orig_inst
    out['new_models'] = sorted(set(new_models))
    out['filter_dropped'] = sorted(set(dropped))
    out['created_tables'] = [
        m.group(1) for m in (
            siglab.re.match(r'\s*CREATE TABLE "([^"]+)"', e['sql'])
            for e in trace.mutating() if e['ok'])
        if m and m.group(1) != 'TEMP_TABLE']
    out['trace'] = trace
    out['error'] = err
    out['ok'] = err is None
    try:
        if conn.in_atomic_block or conn.needs_rollback:
            conn.needs_rollback = False
    except Exception:
        pass
    if err is None:
        out['snap'] = lab_tables(lab.snapshot())
        out['sig'] = stored_lab_sig(alias, list(target_spec))
        out['labels'] = sorted(
            Evolution.objects.using(alias).filter(
                app_label__in=list(per_app_muts)).values_list(
                    'app_label', 'label'))
    return out
