"""In-process lab environment ("siglab"): a minimal Django configured around
django-evolution imported from /repo's working tree, with in-memory SQLite
databases and three empty placeholder apps whose models are registered
dynamically from JSON specs."""
import os
import sys
import warnings

HERE = os.path.dirname(os.path.abspath(__file__))
VERIF = os.path.dirname(HERE)
REPO = os.environ.get('VERIF_REPO', '/repo')
LAB_APPS = ('app1', 'app2', 'app3')

_configured = False


def setup(extra_db_aliases=('fresh', 'alt')):
    """Configure Django once per process."""
    global _configured
    if _configured:
        return
    if REPO not in sys.path:
        sys.path.insert(0, REPO)
    labapps = os.path.join(HERE, 'labapps')
    if labapps not in sys.path:
        sys.path.insert(0, labapps)
    deps = os.path.join(VERIF, '.deps')
    if os.path.isdir(deps) and deps not in sys.path:
        sys.path.append(deps)
    warnings.simplefilter('ignore')
    from django.conf import settings
    dbs = {'default': {'ENGINE': 'django.db.backends.sqlite3',
                       'NAME': ':memory:'}}
    for alias in extra_db_aliases:
        dbs[alias] = {'ENGINE': 'django.db.backends.sqlite3',
                      'NAME': ':memory:'}
    settings.configure(
        DEBUG=False,
        SECRET_KEY='verif',
        USE_TZ=True,
        DEFAULT_AUTO_FIELD='django.db.models.AutoField',
        INSTALLED_APPS=['django.contrib.contenttypes', 'django_evolution']
        + list(LAB_APPS),
        DATABASES=dbs,
        LOGGING_CONFIG=None,
    )
    import django
    django.setup()
    import logging
    logging.disable(logging.CRITICAL)
    import django_evolution
    assert os.path.realpath(django_evolution.__file__).startswith(
        os.path.realpath(REPO)), django_evolution.__file__
    _configured = True


def reset_db(alias):
    """Drop the in-memory database behind alias (closing the connection
    discards a ':memory:' database) and reopen it empty."""
    from django.db import connections
    from django.db.backends.base.base import BaseDatabaseWrapper
    conn = connections[alias]
    # the SQLite backend refuses to close ':memory:' databases; go through
    # the base class so the database really is discarded
    BaseDatabaseWrapper.close(conn)
    if conn.connection is not None or conn.in_atomic_block:
        # an earlier case died inside an atomic block (e.g. an exception in
        # a schema editor's __exit__): close() then only marks the wrapper;
        # discard the transaction state by hand so the next case starts clean
        try:
            if conn.connection is not None:
                conn.connection.close()
        except Exception:
            pass
        conn.connection = None
        conn.in_atomic_block = False
        conn.closed_in_transaction = False
        conn.needs_rollback = False
        conn.savepoint_ids = []
        conn.atomic_blocks = []
        conn.run_on_commit = []
    conn.ensure_connection()
    return conn
