"""Developer tool (never run by a check): regenerate the committed baseline of
enumerated sequences that disagree on the current tree.
  python -m vcheck.baseline C03     -> baselines/C03_enum.json
Only run on the released, unchanged tree after triage; the checks read the
file and never write it.
"""
import json
import os
import sys

from . import main as M
from .props import c03


def run(pid):
    mod = M.prop_module(pid)
    path = os.path.join(M.VERIF, 'baselines', '%s_enum.json' % pid)
    if os.path.exists(path):
        os.unlink(path)
    c03._BASELINE.pop(pid, None)
    descs = [d for d in mod.plan('thorough', 0) if d.get('mode') == 'enum']
    results, lost = M.run_workers(pid, descs, 3000)
    assert not lost, lost
    base = {}
    for r in results:
        items = [it for it in r.get('items') or []
                 if it['type'] != 'ENUM_BEHAVIOUR_CHANGED']
        if items:
            key = ','.join(str(x) for x in r['desc']['seq'])
            base[key] = sorted(set(c03.item_signature(it) for it in items))
    with open(path, 'w') as f:
        json.dump(base, f, sort_keys=True, separators=(',', ':'))
    print(pid, 'enumerated', len(results), 'with discrepancies', len(base),
          '->', path, os.path.getsize(path), 'bytes')


if __name__ == '__main__':
    for pid in sys.argv[1:]:
        run(pid.upper())
