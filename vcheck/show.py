"""Developer tool: run one case descriptor and print everything observed.
  python -m vcheck.show C01 '{"mode":"walk","seed":0,"i":209}'
"""
import json, sys
from . import main as M

def run(pid, desc):
    mod = M.prop_module(pid)
    if hasattr(mod, 'ensure'): mod.ensure()
    if hasattr(mod, 'worker_setup'): mod.worker_setup()
    from . import siglab
    orig = siglab.Lab.evolve
    def evolve(self, app_label, mutations, *a, **kw):
        r = orig(self, app_label, mutations, *a, **kw)
        print('EVOLVE', app_label, [str(m) for m in mutations], 'ok' if r['ok'] else r['error'])
        for e in r['trace'].mutating():
            print('    SQL', e['sql'][:300], e['params'] or '', '' if e['ok'] else e.get('exc'))
        return r
    siglab.Lab.evolve = evolve
    res = mod.run_case(desc)
    print(json.dumps(res.get('case'), indent=None, default=str)[:3000])
    for it in res['items']:
        print('ITEM', json.dumps(it, default=str)[:600])
    return res

if __name__ == '__main__':
    run(sys.argv[1].upper(), json.loads(sys.argv[2]))
