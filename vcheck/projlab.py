"""projlab: throw-away on-disk Django projects driven in fresh interpreters.

A project directory holds settings.py (reading $PL_* environment variables),
one package per app with models_v<i>.py for every version of a history,
models.py selecting the version from $PL_V, evolutions/__init__.py whose
SEQUENCE grows with the version, evolution files, optional migrations
packages, an optional router.  Each run step is one subprocess of
vcheck/driver.py, which attaches the monitors (statement / transaction /
signal traces), performs one action through the real management commands or
the Evolver API and writes events.json.
"""
import hashlib
import json
import os
import shutil
import sqlite3
import subprocess
import sys
import tempfile

from . import dbsnap
from . import specs as S

HERE = os.path.dirname(os.path.abspath(__file__))
VERIF = os.path.dirname(HERE)
REPO = os.environ.get('VERIF_REPO', '/repo')
PY = os.environ.get('VERIF_PYTHON', '/venv/bin/python')

SETTINGS = '''
import json, os
SECRET_KEY = 'projlab'
DEBUG = False
USE_TZ = True
DEFAULT_AUTO_FIELD = 'django.db.models.AutoField'
INSTALLED_APPS = ['django.contrib.contenttypes', 'django_evolution'] + \\
    [a for a in os.environ.get('PL_APPS', '').split(',') if a]
DATABASES = {'default': {'ENGINE': 'django.db.backends.sqlite3',
                         'NAME': os.environ['PL_DB']}}
if os.environ.get('PL_DB2'):
    DATABASES['other'] = {'ENGINE': 'django.db.backends.sqlite3',
                          'NAME': os.environ['PL_DB2']}
if os.environ.get('PL_ROUTER'):
    DATABASE_ROUTERS = ['router.Router']
MIGRATION_MODULES = json.loads(os.environ.get('PL_MIGMODS', '{}'))
LOGGING_CONFIG = None
'''

MODELS_PY = '''
import importlib, os
_v = os.environ.get('PL_V_%(APP)s', os.environ.get('PL_V', '0'))
_m = importlib.import_module('%(app)s.models_v' + _v)
for _k in dir(_m):
    if not _k.startswith('_'):
        globals()[_k] = getattr(_m, _k)
'''

EVOLUTIONS_INIT = '''
import os
_ALL = %(labels)r
_NV = %(nv)r          # version -> number of evolutions visible at it
_v = int(os.environ.get('PL_V_%(APP)s', os.environ.get('PL_V', '0')))
SEQUENCE = _ALL[:_NV[min(_v, len(_NV) - 1)]]
%(extra)s
'''


def q_source(qs):
    op = qs[0]
    if op == 'and':
        return '(%s & %s)' % (q_source(qs[1]), q_source(qs[2]))
    if op == 'or':
        return '(%s | %s)' % (q_source(qs[1]), q_source(qs[2]))
    if op == 'not':
        return '~%s' % q_source(qs[1])
    return 'models.Q(%s__%s=%r)' % (qs[1], op, qs[2])


def field_source(fdef):
    kind = fdef['kind']
    cls = S.field_class(kind).__name__
    kw = []
    if kind in S.REL_KINDS:
        kw.append('%r' % fdef['to'])
        if kind != 'ManyToMany':
            kw.append('on_delete=models.CASCADE')
        kw.append("related_name='+'")
    for a in ('null', 'db_index', 'unique', 'db_column', 'max_length',
              'max_digits', 'decimal_places'):
        if fdef.get(a) is not None and not (kind == 'ManyToMany' and
                                            a == 'null'):
            kw.append('%s=%r' % (a, fdef[a]))
    if kind == 'ManyToMany' and fdef.get('db_table'):
        kw.append('db_table=%r' % fdef['db_table'])
    if kind == 'ManyToMany' and fdef.get('subclass'):
        return 'SubM2M(%s)' % ', '.join(kw)
    if kind in S.CUSTOM_KINDS:
        return '%s(%s)' % (kind, ', '.join(kw))
    return 'models.%s(%s)' % (cls, ', '.join(kw))


FIELDS_PY = '''from django.db import models


class TagField(models.CharField):
    pass


class CodeField(models.CharField):
    pass


class NoteField(models.CharField):
    pass
'''
OWN_FIELDS_IMPORT = 'from %s.fields import TagField, CodeField, NoteField'


def models_source(app, mods, pkg=None):
    lines = ['from django.db import models',
             'from django.db.models.functions import Lower',
             'from vcheck.customfields import SubM2M']
    if any(fd['kind'] in S.CUSTOM_KINDS for ms in mods.values()
           for _fn, fd in ms['fields']):
        # custom field classes of the app's own package (<pkg>/fields.py)
        lines.append(OWN_FIELDS_IMPORT % (pkg or app))
    lines += ['', '']
    if not mods:
        lines.append('# no models at this version')
    for mname, ms in mods.items():
        lines.append('class %s(models.Model):' % mname)
        for fname, fdef in ms['fields']:
            lines.append('    %s = %s' % (fname, field_source(fdef)))
        meta = ms.get('meta') or {}
        lines.append('')
        lines.append('    class Meta:')
        lines.append('        app_label = %r' % app)
        if meta.get('db_table'):
            lines.append('        db_table = %r' % meta['db_table'])
        if meta.get('unique_together'):
            lines.append('        unique_together = %r' % [
                tuple(t) for t in meta['unique_together']])
        if meta.get('index_together'):
            lines.append('        index_together = %r' % [
                tuple(t) for t in meta['index_together']])
        if meta.get('indexes'):
            parts = []
            for ix in meta['indexes']:
                if ix.get('lower'):
                    parts.append('models.Index(Lower(%r), name=%r)' % (
                        ix['lower'], ix['name']))
                    continue
                a = 'fields=%r, name=%r' % (list(ix['fields']), ix['name'])
                if ix.get('condition'):
                    a += ', condition=%s' % q_source(ix['condition'])
                parts.append('models.Index(%s)' % a)
            lines.append('        indexes = [%s]' % ', '.join(parts))
        if meta.get('constraints'):
            parts = []
            for c in meta['constraints']:
                if c['type'] == 'check':
                    parts.append('models.CheckConstraint(check=%s, name=%r)'
                                 % (q_source(c['check']), c['name']))
                else:
                    a = 'fields=%r, name=%r' % (list(c['fields']), c['name'])
                    if c.get('condition'):
                        a += ', condition=%s' % q_source(c['condition'])
                    parts.append('models.UniqueConstraint(%s)' % a)
            lines.append('        constraints = [%s]' % ', '.join(parts))
        lines += ['', '']
    return '\n'.join(lines) + '\n'


def evolution_source(mutation_texts, deps=None, helpers=''):
    """mutation_texts: list of python expressions (str(mutation))."""
    lines = ['from django.db import models',
             'from django_evolution.mutations import *', helpers, '']
    for k, v in (deps or {}).items():
        lines.append('%s = %r' % (k, v))
    lines.append('MUTATIONS = [')
    for t in mutation_texts:
        lines.append('    %s,' % t)
    lines.append(']')
    return '\n'.join(lines) + '\n'


class Project(object):
    def __init__(self, root=None, decoy=False):
        self.root = root or tempfile.mkdtemp(prefix='projlab_')
        self.apps = []
        # decoy mode: every upgrade run targets the database under the alias
        # `other`, while `default` is a decoy freshly installed at the very
        # same version (everything applied and recorded there).  What a run
        # does to its own database must not depend on the state of another
        # one; the observed files and results are the same as without decoy.
        self.decoy = decoy
        self._decoys = {}
        self.decoy_runs = 0
        with open(os.path.join(self.root, 'settings.py'), 'w') as f:
            f.write(SETTINGS)

    def cleanup(self):
        shutil.rmtree(self.root, ignore_errors=True)

    def path(self, *parts):
        return os.path.join(self.root, *parts)

    def write_app(self, app, version_models, evolutions, nv=None,
                  init_extra='', pkg=None, evo_helpers=''):
        """version_models: [models dict at V0, V1, ...];
        evolutions: [(label, [mutation text], deps dict)];
        nv: [number of evolutions visible at version i];
        pkg: python package of the app when it differs from its label (an
        AppConfig with label=app is written; INSTALLED_APPS lists pkg)."""
        d = self.path(pkg or app)
        os.makedirs(os.path.join(d, 'evolutions'), exist_ok=True)
        open(os.path.join(d, '__init__.py'), 'w').close()
        if pkg:
            with open(os.path.join(d, 'apps.py'), 'w') as f:
                f.write('from django.apps import AppConfig\n\n\n'
                        'class Cfg(AppConfig):\n'
                        '    name = %r\n    label = %r\n' % (pkg, app))
        with open(os.path.join(d, 'models.py'), 'w') as f:
            f.write(MODELS_PY % {'app': pkg or app, 'APP': app.upper()})
        with open(os.path.join(d, 'fields.py'), 'w') as f:
            f.write(FIELDS_PY)
        for i, mods in enumerate(version_models):
            with open(os.path.join(d, 'models_v%d.py' % i), 'w') as f:
                f.write(models_source(app, mods, pkg=pkg or app))
        labels = [e[0] for e in evolutions]
        if nv is None:
            nv = list(range(len(version_models)))
        with open(os.path.join(d, 'evolutions', '__init__.py'), 'w') as f:
            f.write(EVOLUTIONS_INIT % {'labels': labels, 'nv': nv,
                                       'APP': app.upper(),
                                       'extra': init_extra})
        for label, texts, deps in evolutions:
            if isinstance(texts, dict):
                texts = []
            with open(os.path.join(d, 'evolutions', label + '.py'), 'w') as f:
                f.write(evolution_source(
                    texts, deps,
                    helpers=(OWN_FIELDS_IMPORT % (pkg or app)
                             if any(k in t for t in texts
                                    for k in S.CUSTOM_KINDS) else '') +
                    evo_helpers))
        if (pkg or app) not in self.apps:
            self.apps.append(pkg or app)

    def write_mig_app(self, app, n, cross_deps=None):
        """An app managed by Django migrations only: model M with fields
        v, x2..xn; migration k (1-based) exists in every package
        `<app>.migs_j` for j >= k, so a run can be shown any prefix of the
        chain through MIGRATION_MODULES.  cross_deps: {k: [(app, name)]}
        extra dependencies of migration k.  Returns the migration names."""
        d = self.path(app)
        os.makedirs(d, exist_ok=True)
        open(os.path.join(d, '__init__.py'), 'w').close()
        with open(os.path.join(d, 'models.py'), 'w') as f:
            f.write(MODELS_PY % {'app': app, 'APP': app.upper()})
        names = ['0001_initial'] + ['%04d_x%d' % (k, k)
                                    for k in range(2, n + 1)]
        for v in range(0, n + 1):
            fields = [['v', {'kind': 'Integer'}]] + [
                ['x%d' % k, {'kind': 'Integer', 'null': True}]
                for k in range(2, max(v, 1) + 1)]
            with open(os.path.join(d, 'models_v%d.py' % v), 'w') as f:
                f.write(models_source(app, {'M': {'fields': fields,
                                                  'meta': {}}}))
        # (`migrations` itself holds the whole chain: django-evolution decides
        # that an app uses migrations by importing `<app>.migrations`)
        for j in list(range(1, n + 1)) + [None]:
            pkg = os.path.join(d, 'migs_%d' % j if j else 'migrations')
            j = j or n
            os.makedirs(pkg, exist_ok=True)
            open(os.path.join(pkg, '__init__.py'), 'w').close()
            for k in range(1, j + 1):
                deps = [(app, names[k - 2])] if k > 1 else []
                deps += [tuple(x) for x in (cross_deps or {}).get(k, [])]
                if k == 1:
                    ops = ("migrations.CreateModel(name='M', fields=["
                           "('id', models.AutoField(auto_created=True, "
                           "primary_key=True, serialize=False, "
                           "verbose_name='ID')), "
                           "('v', models.IntegerField())])")
                else:
                    ops = ("migrations.AddField(model_name='m', "
                           "name='x%d', field=models.IntegerField("
                           "null=True))" % k)
                with open(os.path.join(pkg, names[k - 1] + '.py'), 'w') as f:
                    f.write('from django.db import migrations, models\n\n\n'
                            'class Migration(migrations.Migration):\n'
                            '    initial = %r\n'
                            '    dependencies = %r\n'
                            '    operations = [%s]\n'
                            % (k == 1, deps, ops))
        if app not in self.apps:
            self.apps.append(app)
        return names

    def write_router(self, routes):
        """routes: {(app, ModelName lower): alias}; default 'default'."""
        src = '''
ROUTES = %r


class Router(object):
    def _db(self, app_label, model_name):
        return ROUTES.get('%%s.%%s' %% (app_label, (model_name or '').lower()))

    def db_for_read(self, model, **hints):
        return self._db(model._meta.app_label, model._meta.model_name)

    db_for_write = db_for_read

    def allow_migrate(self, db, app_label, model_name=None, **hints):
        want = self._db(app_label, model_name)
        if want is None:
            return db == 'default' if app_label in %r else None
        return db == want
''' % ({'%s.%s' % k: v for k, v in routes.items()},
            sorted(set(k[0] for k in routes)))
        with open(self.path('router.py'), 'w') as f:
            f.write(src)

    # -- running
    def run(self, action, version=0, db='db.sqlite3', apps=None, env=None,
            args=None, hashseed='0', timeout=120, db2=None, router=False,
            app_versions=None, migmods=None):
        out = self.path('events_%d.json' % (len(os.listdir(self.root))))
        e = dict(os.environ)
        e.update({
            'PL_DB': self.path(db), 'PL_V': str(version),
            'PL_APPS': ','.join(apps if apps is not None else self.apps),
            'PYTHONPATH': os.pathsep.join([REPO, self.root, VERIF]),
            'DJANGO_SETTINGS_MODULE': 'settings',
            'PYTHONHASHSEED': str(hashseed),
            'PYTHONDONTWRITEBYTECODE': '1',
            'PL_OUT': out, 'PL_ACTION': action,
            'PL_ARGS': json.dumps(args or {}),
        })
        for a, v in (app_versions or {}).items():
            e['PL_V_' + a.upper()] = str(v)
        if self.decoy and not db2 and not router and not (
                args or {}).get('database') and action in (
                'evolve_api', 'evolve_cmd', 'migrate_cmd', 'status'):
            key = json.dumps([version, apps if apps is not None else
                              self.apps, app_versions, migmods],
                             sort_keys=True, default=str)
            if key not in self._decoys:
                name = 'decoy_%d.sqlite3' % len(self._decoys)
                self._decoys[key] = None      # (no recursion)
                saved, self.decoy = self.decoy, False
                try:
                    dv = self.run('evolve_api', version=version, db=name,
                                  apps=apps, app_versions=app_versions,
                                  migmods=migmods, env=env,
                                  args={'no_facts_before': False})
                finally:
                    self.decoy = saved
                if not dv.get('driver_error') and dv['outcome']['ok']:
                    self._decoys[key] = name
            if self._decoys.get(key):
                e['PL_DB'] = self.path(self._decoys[key])
                e['PL_DB2'] = self.path(db)
                e['PL_SWAP'] = '1'
                e['PL_ARGS'] = json.dumps(dict(args or {}, database='other'))
                self.decoy_runs += 1
        if db2:
            e['PL_DB2'] = self.path(db2)
        if router:
            e['PL_ROUTER'] = '1'
        if migmods:
            e['PL_MIGMODS'] = json.dumps(migmods)
        e.update(env or {})
        try:
            p = subprocess.run([PY, '-X', 'faulthandler',
                                os.path.join(HERE, 'driver.py')],
                               cwd=self.root, env=e, capture_output=True,
                               text=True, timeout=timeout)
        except subprocess.TimeoutExpired:
            return {'driver_error': 'timeout'}
        if not os.path.exists(out):
            return {'driver_error': 'no events file', 'rc': p.returncode,
                    'stderr': p.stderr[-600:], 'stdout': p.stdout[-500:]}
        ev = json.load(open(out))
        os.unlink(out)
        ev['rc'] = p.returncode
        if p.returncode != 0:
            ev['driver_stderr'] = p.stderr[-1500:]
        return ev

    # -- observing the database file
    def snapshot(self, db='db.sqlite3', with_rows=True):
        path = self.path(db)
        if not os.path.exists(path):
            return {}
        con = sqlite3.connect(path)
        try:
            return dbsnap.snapshot(con.cursor(), with_rows=with_rows)
        finally:
            con.close()

    def sha(self, db='db.sqlite3'):
        path = self.path(db)
        if not os.path.exists(path):
            return None
        return hashlib.sha256(open(path, 'rb').read()).hexdigest()

    def table_rows(self, table, db='db.sqlite3'):
        path = self.path(db)
        if not os.path.exists(path):
            return []
        con = sqlite3.connect(path)
        try:
            cur = con.cursor()
            try:
                return dbsnap.table_rows(cur, table)
            except sqlite3.OperationalError:
                return []
        finally:
            con.close()

    def insert_rows(self, rows, db='db.sqlite3'):
        con = sqlite3.connect(self.path(db))
        try:
            cur = con.cursor()
            cur.execute('PRAGMA foreign_keys = OFF')
            for table, rws in rows.items():
                for r in rws:
                    cols = list(r)
                    try:
                        cur.execute('INSERT INTO "%s" (%s) VALUES (%s)' % (
                            table, ', '.join('"%s"' % c for c in cols),
                            ', '.join('?' * len(cols))),
                            [r[c] for c in cols])
                    except sqlite3.IntegrityError:
                        pass
            for _round in range(10):
                bad = cur.execute('PRAGMA foreign_key_check').fetchall()
                if not bad:
                    break
                for table, rowid, _p, _f in bad:
                    cur.execute('DELETE FROM "%s" WHERE rowid = ?' % table,
                                [rowid])
            con.commit()
        finally:
            con.close()

    def copy_db(self, src, dst):
        shutil.copyfile(self.path(src), self.path(dst))

    def evolution_rows(self, db='db.sqlite3'):
        """[(app_label, label, version_id)] recorded as applied."""
        rows = self.table_rows('django_evolution', db)
        return sorted((r['app_label'], r['label'], r['version_id'])
                      for r in rows)

    def version_rows(self, db='db.sqlite3'):
        return self.table_rows('django_project_version', db)
