"""Orchestrator: plan cases, shard them over worker subprocesses, classify the
discrepancy items against KNOWN_FINDINGS.txt, write evidence, print verdict.

  python -m vcheck.main <ID> quick|thorough
  python -m vcheck.main <ID> --replay <path>
  python -m vcheck.main --worker <ID> <in.json> <out.jsonl>     (internal)

Exit codes: 0 held on what was observed (KNOWN-FINDING lines allowed),
1 violation (VIOLATION property=<id> replay=<path>), 2 inconclusive.
"""
import hashlib
import importlib
import json
import os
import re
import shutil
import subprocess
import sys
import tempfile
import time

HERE = os.path.dirname(os.path.abspath(__file__))
VERIF = os.path.dirname(HERE)
REPO = os.environ.get('VERIF_REPO', '/repo')
PY = os.environ.get('VERIF_PYTHON', '/venv/bin/python')
NCPU = int(os.environ.get('VERIF_JOBS', '16'))
KF_FILE = os.path.join(VERIF, 'KNOWN_FINDINGS.txt')
# developer runs against a scratch tree write their outputs elsewhere
OUT = os.environ.get('VERIF_OUT', VERIF)


def prop_module(pid):
    return importlib.import_module('vcheck.props.%s' % pid.lower())


# ------------------------------------------------------------- known findings

def load_findings(pid=None):
    out = []
    if not os.path.exists(KF_FILE):
        return out
    for line in open(KF_FILE, encoding='utf-8'):
        line = line.strip()
        if not line.startswith('finding:'):
            continue
        m = re.match(r'finding:\s+property=(\S+)\s+id=(\S+)\s+match=(.*?)\s+::\s+(.*)$',
                     line)
        if not m:
            raise SystemExit('bad finding line: %r' % line)
        if pid and pid not in m.group(1).split(','):
            continue
        out.append({'property': m.group(1), 'id': m.group(2),
                    'match': json.loads(m.group(3)), 'text': m.group(4)})
    return out


def item_matches(item, pattern):
    for k, want in pattern.items():
        if k.endswith('~'):
            v = item.get(k[:-1])
            if v is None or not re.search(want, str(v)):
                return False
            continue
        v = item.get(k)
        if isinstance(want, list):
            if isinstance(v, list):
                if v not in want and not any(
                        not isinstance(w, list) and w in v for w in want):
                    return False
            elif v not in want:
                return False
        elif v != want:
            return False
    return True


def classify(items, findings):
    """-> (unexplained items, {finding id: hits})."""
    hits = {}
    unexplained = []
    for it in items:
        for f in findings:
            if item_matches(it, f['match']):
                hits[f['id']] = hits.get(f['id'], 0) + 1
                break
        else:
            unexplained.append(it)
    return unexplained, hits


# ------------------------------------------------------------------- workers

def worker_main(pid, infile, outfile):
    mod = prop_module(pid)
    descs = json.load(open(infile))
    if hasattr(mod, 'worker_setup'):
        mod.worker_setup()
    with open(outfile, 'w') as out:
        for d in descs:
            t0 = time.time()
            try:
                res = mod.run_case(d)
            except Exception as e:     # harness or unexpected repo failure
                import traceback
                from vcheck.siglab import exc_site
                site = exc_site(e)
                res = {'key': json.dumps(d, sort_keys=True),
                       'nontrivial': False, 'items': [], 'stats': {},
                       'case': d}
                tb = traceback.format_exc()[-1500:]
                if site != 'outside':
                    res['items'].append({'type': 'UNEXPECTED_EXC',
                                         'exc': type(e).__name__,
                                         'site': site,
                                         'msg': str(e)[:300], 'tb': tb})
                else:
                    res['harness_error'] = tb
            res['desc'] = d
            res['t'] = round(time.time() - t0, 4)
            out.write(json.dumps(res, default=str) + '\n')
            out.flush()
    return 0


def run_workers(pid, descs, timeout, jobs=None):
    """Shard descs round-robin over subprocess workers; return results."""
    jobs = max(1, min(jobs or NCPU, len(descs)))
    tmp = tempfile.mkdtemp(prefix='vcheck_%s_' % pid)
    procs = []
    env = dict(os.environ)
    env.setdefault('PYTHONHASHSEED', '0')
    env['PYTHONDONTWRITEBYTECODE'] = '1'
    env['PYTHONPATH'] = os.pathsep.join(
        [REPO, VERIF] + [p for p in env.get('PYTHONPATH', '').split(
            os.pathsep) if p])
    results, lost = [], []
    try:
        for j in range(jobs):
            shard = descs[j::jobs]
            inf = os.path.join(tmp, 'in%d.json' % j)
            outf = os.path.join(tmp, 'out%d.jsonl' % j)
            json.dump(shard, open(inf, 'w'))
            p = subprocess.Popen(
                [PY, '-X', 'faulthandler', '-m', 'vcheck.main', '--worker',
                 pid, inf, outf],
                cwd=VERIF, env=env, stdout=subprocess.PIPE,
                stderr=subprocess.STDOUT)
            procs.append((p, shard, outf))
        deadline = time.time() + timeout
        for p, shard, outf in procs:
            left = max(1, deadline - time.time())
            try:
                out, _ = p.communicate(timeout=left)
                rc = p.returncode
            except subprocess.TimeoutExpired:
                p.kill()
                out, _ = p.communicate()
                rc = 'timeout'
            got = []
            if os.path.exists(outf):
                for line in open(outf):
                    try:
                        got.append(json.loads(line))
                    except ValueError:
                        pass
            results.extend(got)
            if len(got) < len(shard):
                lost.append({'rc': rc, 'missing': len(shard) - len(got),
                             'tail': (out or b'').decode(
                                 'utf-8', 'replace')[-800:]})
    finally:
        shutil.rmtree(tmp, ignore_errors=True)
    return results, lost


# ------------------------------------------------------------------ evidence

def write_evidence(pid, tier, seed, level, coverage, wall, violations,
                   assumptions, extra=None):
    ev = {'property_id': pid, 'tier': tier, 'seed': seed, 'level': level,
          'coverage': coverage, 'assumptions': assumptions,
          'wall_s': round(wall, 2), 'violations': violations}
    if extra:
        ev.update(extra)
    d = os.path.join(OUT, 'evidence')
    os.makedirs(d, exist_ok=True)
    path = os.path.join(d, '%s.json' % pid)
    with open(path + '.tmp', 'w') as f:
        json.dump(ev, f, indent=1, default=str, sort_keys=True)
    os.replace(path + '.tmp', path)
    return path


def case_hash(obj):
    return hashlib.sha256(json.dumps(obj, sort_keys=True,
                                     default=str).encode()).hexdigest()[:16]


def write_replay(pid, res, kind):
    d = os.path.join(OUT, 'replays', pid)
    os.makedirs(d, exist_ok=True)
    path = os.path.join(d, '%s_%s.json' % (kind, case_hash(res.get('desc'))))
    with open(path, 'w') as f:
        json.dump({'property': pid, 'desc': res.get('desc'),
                   'case': res.get('case'), 'items': res.get('items')},
                  f, indent=1, default=str)
    return path


# ---------------------------------------------------------------------- main

def main(argv):
    if argv and argv[0] == '--worker':
        return worker_main(argv[1], argv[2], argv[3])
    pid = argv[0].upper()
    mod = prop_module(pid)
    findings = load_findings(pid)
    if len(argv) >= 3 and argv[1] == '--replay':
        return replay(pid, mod, findings, argv[2])
    tier = argv[1] if len(argv) > 1 else os.environ.get('VERIF_TIER', 'quick')
    assert tier in ('quick', 'thorough'), tier
    seed = int(os.environ.get('VERIF_SEED', '0') or 0)
    t0 = time.time()
    if hasattr(mod, 'ensure'):
        mod.ensure()
    descs = mod.plan(tier, seed)
    cap = getattr(mod, 'TIMEOUT', {'quick': 170, 'thorough': 1500})[tier]
    results, lost = run_workers(pid, descs, cap)
    wall = time.time() - t0
    return report(pid, mod, findings, tier, seed, descs, results, lost, wall)


def report(pid, mod, findings, tier, seed, descs, results, lost, wall):
    inconclusive = []
    if lost:
        inconclusive.append('workers lost %d cases: %s' % (
            sum(x['missing'] for x in lost), lost[0]['tail'][-300:]))
    herr = [r for r in results if r.get('harness_error')]
    if herr:
        inconclusive.append('harness errors in %d cases: %s' % (
            len(herr), herr[0]['harness_error'][-400:]))
    if hasattr(mod, 'post'):
        # cross-case oracle (e.g. determinism across processes)
        mod.post(results)
    violations, known_hits, kf_witness = [], {}, {}
    nontrivial_keys = set()
    weight_total, weight_nontrivial = 0, 0
    for r in results:
        weight_total += r.get('weight', 1)
        if r.get('nontrivial'):
            if r['key'] not in nontrivial_keys:
                weight_nontrivial += r.get('nontrivial_weight',
                                           r.get('weight', 1))
            nontrivial_keys.add(r['key'])
        if not r.get('items'):
            continue
        unexplained, hits = classify(r['items'], findings)
        for k, n in hits.items():
            known_hits[k] = known_hits.get(k, 0) + n
            kf_witness.setdefault(k, r)
        if unexplained:
            r['unexplained'] = unexplained
            violations.append(r)
    coverage = {
        'evaluations': weight_total,
        'distinct_nontrivial': weight_nontrivial,
        'work_units': len(results),
        'rule': mod.RULE,
        'samples': [],
        'planned': len(descs),
        'known_finding_hits': known_hits,
        'cases_with_items': sum(1 for r in results if r.get('items')),
    }
    if getattr(mod, 'EXHAUSTIVE', None):
        coverage['exhaustive'] = bool(mod.EXHAUSTIVE.get(tier))
    stats = {}
    for r in results:
        merge_stats(stats, r.get('stats') or {})
    coverage['monitor_counts'] = stats
    samples = [r for r in results if r.get('nontrivial')][:4]
    coverage['samples'] = [{'desc': r['desc'], 'case': r.get('case'),
                            'items': r.get('items')} for r in samples] or \
        [{'desc': r['desc'], 'case': r.get('case')} for r in results[:2]]
    if hasattr(mod, 'coverage_extra'):
        coverage.update(mod.coverage_extra(results, tier))
    floors = getattr(mod, 'FLOORS', {}).get(tier, {})
    for k, floor in floors.items():
        have = coverage['distinct_nontrivial'] if k == 'nontrivial' \
            else stats.get(k, 0)
        if have < floor:
            inconclusive.append('floor %s: saw %s < %s' % (k, have, floor))
    write_evidence(pid, tier, seed, mod.LEVEL, coverage, wall,
                   len(violations), mod.ASSUMPTIONS,
                   extra={'inconclusive_reasons': inconclusive,
                          'effective_seed': getattr(mod, 'eff_seed',
                                                    lambda s: s)(seed)})
    print('%s %s seed=%d: %d cases, %d distinct non-trivial, %d with '
          'discrepancies, %.1fs' % (pid, tier, seed, weight_total,
                                    weight_nontrivial,
                                    coverage['cases_with_items'], wall))
    for k in sorted(stats):
        if isinstance(stats[k], (int, float)):
            print('  monitor %s = %s' % (k, stats[k]))
    for f in findings:
        if f['id'] in known_hits:
            print('KNOWN-FINDING: property=%s %s %s (hits=%d)' % (
                pid, f['id'], f['text'], known_hits[f['id']]))
    if violations:
        seen = set()
        for r in violations[:50]:
            sig = json.dumps(sorted(set(
                (u.get('type'), u.get('site'), u.get('exc'))
                for u in r['unexplained'])), default=str)
            path = write_replay(pid, r, 'violation')
            if sig in seen:
                continue
            seen.add(sig)
            print('VIOLATION property=%s replay=%s' % (pid, path))
            for u in r['unexplained'][:6]:
                print('   ', json.dumps(u, default=str)[:400])
        print('%d violating cases (%d distinct mechanisms shown)' % (
            len(violations), len(seen)))
        return 1
    if inconclusive:
        for why in inconclusive:
            print('INCONCLUSIVE property=%s reason=%s' % (pid, why))
        return 2
    return 0


def merge_stats(dst, src):
    for k, v in src.items():
        if isinstance(v, (int, float)) and not isinstance(v, bool):
            dst[k] = dst.get(k, 0) + v
        elif isinstance(v, dict):
            merge_stats(dst.setdefault(k, {}), v)
        elif isinstance(v, list):
            cur = dst.setdefault(k, [])
            for x in v:
                if x not in cur and len(cur) < 400:
                    cur.append(x)


def replay(pid, mod, findings, path):
    data = json.load(open(path))
    sys.path.insert(0, REPO)
    if hasattr(mod, 'ensure'):
        mod.ensure()
    if hasattr(mod, 'worker_setup'):
        mod.worker_setup()
    res = mod.run_case(data['desc'])
    unexplained, hits = classify(res.get('items') or [], findings)
    print(json.dumps({'items': res.get('items'), 'known': hits},
                     indent=1, default=str)[:6000])
    for k in hits:
        print('KNOWN-FINDING: property=%s %s' % (pid, k))
    if unexplained:
        print('VIOLATION property=%s replay=%s' % (pid, path))
        return 1
    return 0


if __name__ == '__main__':
    sys.exit(main(sys.argv[1:]))
