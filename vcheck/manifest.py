"""Regenerate /verif/MANIFEST.json from the table below.
  python -m vcheck.manifest
"""
import json
import os

VERIF = os.path.dirname(os.path.dirname(os.path.abspath(__file__)))
BASELINE = ('cd /repo && /venv/bin/python -m pytest -ra -q -p no:cacheprovider '
            '--timeout=900 --continue-on-collection-errors')

# id -> (category, technique, level text, level note, design ref)
CHECKS = {
    'C01': ('exploration',
            'differential runtime monitoring: statement-traced evolution vs '
            'Django-created schema, normalised PRAGMA snapshots',
            'Runs the real AppMutator/SQLite backend/SQLExecutor on generated '
            'model sets and simulation-valid evolutions, then compares the '
            'introspected database with the one Django creates for the '
            'evolved models; holds only for the executions produced.',
            'Trusts Django schema_editor.create_model as reference and the '
            'normalisation rules of DESIGN 2.3; SQLite only.', '3/C01'),
    'C02': ('exploration',
            'history + reference row model: rows read back after the traced '
            'evolution vs rows derived from the same edits',
            'Inserts hostile rows, runs the real evolution one mutation per '
            'AppMutator and compares every surviving value, fill value and '
            'row count with a small reference model of the edits.',
            'Trusts the reference row model (vcheck/refrows.py) and SQLite '
            'affinity of the pre-evolution snapshot.', '3/C02'),
    'C03': ('exploration',
            'differential runtime monitoring of two real executions '
            '(one-at-a-time vs optimised batch vs re-processing vs the real '
            'Evolver task pipeline), small-scope enumeration + random walks',
            'Every simulation-valid sequence of the scope is executed along '
            'path A, B, B2 and P (Evolver.evolve() over evolution modules '
            'discovered the normal way) on identical databases; signatures, '
            'schemas, rows, recorded labels and the mutation definitions '
            'are compared.',
            'Sequences whose unbatched execution already fails are skipped; '
            'enumerated inputs are judged against a committed per-input '
            'baseline.', '3/C03'),
    'C11': ('exploration',
            'invariant at a hook: signature walker inside the wrapped '
            'run_simulation + foreign-key introspection after execution',
            'After every simulated mutation of relation-heavy sequences the '
            'whole project signature is walked for dangling or stale '
            'references; the database is checked with PRAGMA '
            'foreign_key_list / foreign_key_check.',
            'SQLite; deletions only of unreferenced models; declared '
            'primary keys, a reused app label and a referrer on migrations '
            'are hand-parameterised variants.', '3/C11'),
    'C18': ('exploration',
            'statement-trace monitor counting table rebuilds per table in '
            'the optimised vs the one-at-a-time run',
            'Counts TEMP_TABLE rebuilds on the traces of both runs of every '
            'sequence of the C03 universe and checks the per-table and '
            'per-run bounds.',
            'A rebuild is recognised by ALTER TABLE "TEMP_TABLE" RENAME TO; '
            'cases where a path fails are skipped.', '3/C18'),
    'C05': ('exploration',
            'recorded real calls replayed against an invariant: hint applied '
            'with run_simulation, residual Diff; eq vs Diff agreement on '
            'pairs and variants',
            'For generated signature pairs the hinted evolution is simulated '
            'with the real code and the residual difference must be empty; '
            '== is compared with "empty difference both ways" on pairs and '
            'on systematically perturbed variants.',
            'Signature level only; placeholders replaced by concrete '
            'initials; an empty difference between signatures whose stored '
            'form differs is reported (independent witness).', '3/C05'),
    'C06': ('exploration',
            'round-trip identity monitor on the real storage paths '
            '(serialize/json/OrderedDict/deserialize, Version.save/reload, '
            'v2->v1->v2)',
            'Generated and hand-constructed signatures are stored and read '
            'back through the same code the evolver uses; equality, both '
            'diffs, re-serialisation and stored text stability are checked.',
            'SQLite; directly constructed signatures are compared modulo '
            'JSON key order; legacy (version 1, pickled) rows with non-ASCII '
            'names are read back through the Version model.', '3/C06'),
    'C13': ('exploration',
            'differential monitoring of renderer and loader: rendered hint '
            'text exec()d, loaded vs original mutations compared by '
            'simulated signature and generated SQL',
            'Hinted and hand-constructed mutations are rendered with the real '
            'get_evolution_content(), loaded like an evolution module and '
            'compared by effect with the originals.',
            'exec() in a fresh namespace stands for importing the written '
            'file.', '3/C13'),
    'C09': ('exploration',
            'exhaustive driving of the real DependencyGraph over all small '
            'digraphs with an independent topological-order oracle; '
            'signal-order monitor on generated projects',
            'Every digraph of the scope is fed to the real ordering code; '
            'acyclic graphs must come back as a dependency-respecting '
            'permutation, cyclic ones must raise. Generated projects with '
            'evolution apps, apps managed by migration chains, hand-overs '
            'and AFTER_/BEFORE_ EVOLUTIONS/MIGRATIONS requirements are '
            'upgraded by the real Evolver and the observed order of '
            'migrations (signals) and evolutions (the statement that '
            'introduces their column) is checked against every requirement.',
            'The ordering core is DependencyGraph.get_ordered(); exhaustive '
            'only for the stated node counts; the project pools are random.',
            '3/C09'),
    'C04': ('exploration',
            'differential monitoring of real upgrade paths on generated '
            'on-disk projects (fresh / direct / stepwise, three drivers), '
            'statement trace + file hash for the no-op re-run',
            'Every generated history is brought to its last version along '
            'several real paths in fresh interpreters; schema, rows, '
            'recorded labels and stored signature are compared and a further '
            'run must execute nothing.',
            'Histories use the clean edit subset (see DESIGN 3/C04); '
            'SQLite files; every third case targets a non-default database '
            'next to a fully installed default (decoy mode).', '3/C04'),
    'C07': ('fault_enumeration',
            'fault injection at every statement index of real upgrade runs '
            '(execute_wrapper raising OperationalError), snapshot equality '
            'pre/post failure, retry vs uninterrupted run',
            'For every generated single-batch upgrade each of the N mutating '
            'statements executed through SQLExecutor.run_sql during '
            'Evolver.evolve() is made to fail in turn; error type, reported '
            'statement, database state after the failure and after a retry '
            'are checked.',
            'SQLite; faults are injected exceptions, not process crashes; N '
            'capped at 60 per upgrade.', '3/C07'),
    'C17': ('fault_enumeration',
            'offline trace checker over the interleaved signal / statement '
            '/ transaction log of clean, no-op, fault-injected and retried '
            'Evolver.evolve() runs',
            'The recorded event log of every run is checked against the '
            'signal specification (single evolving, truthful terminal '
            'signal, pairing and payload, statement attribution, lock '
            'release, labels recorded iff evolved).',
            'Faults at every mutating statement of evolve() incl. '
            'bookkeeping, on single-batch upgrades and on hand-over '
            'projects with real migrations; statement attribution by '
            'generated table ownership.', '3/C17'),
    'C08': ('exploration',
            'offline log checker: recorded run histories (signals, Evolution '
            'rows, outcomes) against an executable model of the applied-log',
            'Random schedules of real runs against one database file are '
            'recorded and every run is checked against the model: executed '
            'at most once, recorded exactly once with the right version, '
            'nothing recorded by failed runs, fresh installs execute '
            'nothing.',
            'Clean edit subset plus data evolutions (SQLMutation marker '
            'rows counted in the database); wipe / mark commands as pairs, '
            'mark of a pending non-next label, wipe followed by an upgrade; '
            'a run whose last task fails.',
            '3/C08'),
    'C12': ('exploration',
            'gate monitor: harness-side reachability by one-at-a-time '
            'simulation vs observed outcome, statement trace, file hash and '
            'bookkeeping rows of `evolve --execute`',
            'Valid generated evolutions are perturbed; whenever the '
            'perturbed evolution does not reach the current models the '
            'command must fail with an evolution error before any SQL and '
            'leave file, rows and bookkeeping untouched.',
            'Reachability is decided with the repository\'s own simulation '
            'primitives, as the property defines it.', '3/C12'),
    'C14': ('exploration',
            'differential monitoring across processes: --sql/--hint output '
            'under 5 hash seeds, preview vs traced execution per app',
            'Preview output of five interpreters with different '
            'PYTHONHASHSEED must be byte-identical and equal, statement by '
            'statement with parameters substituted, to what --execute issues '
            'between the app\'s applying/applied signals.',
            'SQLite; upgrades whose execution fails are skipped.', '3/C14'),
    'C10': ('exploration',
            'history + reference model of the hand-over on generated '
            'projects with real makemigrations output: signal order, '
            'django_migrations rows, stored app signature, re-run',
            'Generated apps with evolutions, a MoveToDjangoMigrations '
            'evolution and a real migration chain are upgraded from fresh / '
            'earlier states through three drivers; order, execution and '
            'recording of migrations and the stored signature are checked.',
            'SQLite; migrations generated by Django makemigrations in a '
            'helper process.', '3/C10'),
    'C15': ('exploration',
            'reference ownership model vs observed dropped tables, '
            'byte-identical comparison of all other tables and stored '
            'signature entries',
            'Projects of 2-4 apps are evolved after apps were removed '
            '(with/without purge, command and API) or a model deleted; '
            'exactly the owned tables and signature entries may disappear.',
            'Only apps that no remaining app refers to are removed.',
            '3/C15'),
    'C16': ('exploration',
            'two-database monitor: per-alias statement trace, SHA-256 of '
            'the other database file, ownership reference from the '
            'generated router',
            'Every split of an app\'s models over two databases is evolved '
            'database by database; tables, stored models and columns on each '
            'side must match the routing and the other file must not '
            'change.',
            'SQLite files; router answers from a fixed table.', '3/C16'),
}

NOT_YET = 'check under construction (round 1)'


def build():
    props = [json.loads(l) for l in open(os.path.join(VERIF,
                                                      'properties.jsonl'))]
    checks, na = [], []
    for p in props:
        pid = p['id']
        if pid in CHECKS:
            cat, tech, text, note, ref = CHECKS[pid]
            checks.append({
                'property_id': pid,
                'quick_cmd': './check %s quick' % pid,
                'thorough_cmd': './check %s thorough' % pid,
                'evidence_file': 'evidence/%s.json' % pid,
                'replay_cmd_template': './check %s --replay {path}' % pid,
                'engine': 'vcheck',
                'level_claimed': {'category': cat, 'text': text,
                                  'design_ref': 'DESIGN.md section ' + ref},
                'level_note': note,
                'technique': tech,
            })
        else:
            na.append({'property_id': pid, 'reason': NOT_YET})
    m = {
        'version': 1,
        'setup_cmd': './setup.sh',
        'hooks': {
            'guard': 'DJANGO_EVOLUTION_VERIF',
            'enable': 'no source hooks are needed: every monitor is attached '
                      'from the harness (execute_wrapper, signal receivers, '
                      'wrapped methods); the guard is unused',
            'baseline_off_cmd': BASELINE,
            'source_commits': [],
            'add_only': True,
        },
        'engines': [{'name': 'vcheck', 'path': 'vcheck/',
                     'serves_properties': sorted(CHECKS),
                     'kind_free_text': 'runtime monitors + oracles over '
                     'generated workloads driving the real code in-process '
                     '(siglab) and in generated on-disk projects (projlab)'}],
        'checks': checks,
        'not_applicable': na,
        'notes': 'Runtime monitoring only. Exit 0 held / 1 VIOLATION / 2 '
                 'INCONCLUSIVE. Known findings: KNOWN_FINDINGS.txt.',
    }
    with open(os.path.join(VERIF, 'MANIFEST.json'), 'w') as f:
        json.dump(m, f, indent=1)
    return m


if __name__ == '__main__':
    m = build()
    print('checks:', [c['property_id'] for c in m['checks']])
