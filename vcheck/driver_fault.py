"""Fault-enumeration loop run inside one driver process (models are the same
for every k, so only the database file is restored between runs).

For k = 0 (clean) and every k in 1..N: restore the database file, arm the
injector for the k-th mutating statement issued inside
SQLExecutor.run_sql(execute=True) during Evolver.evolve(), run the upgrade,
record outcome / signals / transaction events / database state, then retry
without a fault on the database the failed run left behind.
"""
import hashlib
import os
import shutil
import sqlite3


def db_state(path):
    """What must be unchanged by a failed run / equal after a retry."""
    from vcheck import dbsnap
    con = sqlite3.connect(path)
    try:
        cur = con.cursor()
        snap = dbsnap.snapshot(cur, with_rows=True, skip=('sqlite_sequence',))
    finally:
        con.close()
    out = {}
    for t, e in snap.items():
        if t in ('django_content_type',):
            continue
        rows = e['rows']
        if t in ('django_project_version', 'django_evolution',
                 'django_migrations'):
            # timestamps and surrogate keys legitimately differ between runs
            rows = sorted(
                ({k: v for k, v in r.items()
                  if k not in ('id', 'when', 'version_id', 'applied')}
                 for r in rows), key=repr)
            e = dict(e, rows=rows)
        out[t] = {'sql': dbsnap.squeeze(e['sql']),
                  'indexes': sorted(
                      [[i['cols'], i['unique'], i['where']]
                       for i in e['indexes']], key=repr),
                  'rows': e['rows']}
    return out


def diff_state(a, b):
    """Typed differences between two db_state() results (a=expected)."""
    items = []
    for t in sorted(set(a) | set(b)):
        if t not in b:
            items.append({'what': 'TABLE_MISSING', 'table': t})
        elif t not in a:
            items.append({'what': 'TABLE_EXTRA', 'table': t})
        else:
            if a[t]['sql'] != b[t]['sql']:
                items.append({'what': 'TABLE_SQL', 'table': t})
            if a[t]['indexes'] != b[t]['indexes']:
                items.append({'what': 'INDEXES', 'table': t})
            if a[t]['rows'] != b[t]['rows']:
                kind = 'BOOKKEEPING_ROWS' if t in (
                    'django_evolution', 'django_project_version',
                    'django_migrations') else 'ROWS'
                items.append({'what': kind, 'table': t,
                              'expected': len(a[t]['rows']),
                              'got': len(b[t]['rows'])})
    return items


def recorded_labels(path):
    con = sqlite3.connect(path)
    try:
        try:
            return sorted([a, l] for a, l in con.execute(
                'SELECT app_label, label FROM django_evolution'))
        except sqlite3.OperationalError:
            return []
    finally:
        con.close()


def classify_stmt(sql, in_rebuild):
    s = sql.strip().upper()
    if s.startswith('CREATE TABLE "TEMP_TABLE"'):
        return 'rebuild_create'
    if s.startswith('INSERT INTO "TEMP_TABLE"'):
        return 'rebuild_copy'
    if s.startswith('DROP TABLE') and in_rebuild:
        return 'rebuild_drop'
    if s.startswith('ALTER TABLE "TEMP_TABLE" RENAME'):
        return 'rebuild_rename'
    if s.startswith('CREATE TABLE'):
        return 'create_model'
    if s.startswith(('CREATE INDEX', 'CREATE UNIQUE INDEX')):
        return 'create_index'
    if s.startswith('DROP INDEX'):
        return 'drop_index'
    if s.startswith('ALTER TABLE'):
        return 'alter'
    if s.startswith(('UPDATE', 'INSERT', 'DELETE')):
        return 'data'
    return 'other'


def run(args, drv):
    from django.db import connections
    from django_evolution.utils import sql as sqlmod
    import django_evolution.management as mgmt
    work = os.environ['PL_DB']
    base = args['base_db']
    max_k = int(args.get('max_k', 60))
    inrun = drv.INRUN
    if args.get('scope') == 'all':
        drv.FAULT['match'] = None
    else:
        drv.FAULT['match'] = lambda _sql: inrun['on']

    def restore(src):
        for alias in connections:
            try:
                connections[alias].close()
            except Exception:
                pass
        shutil.copyfile(src, work)

    via = args.get('via') or 'api'

    def one_run(fault_at, only_if_required=False, direct=False):
        """direct: evolve() without asking whether an upgrade is required
        first (preparation then happens inside evolve()); the injector
        counts every statement, also reads."""
        from django_evolution.evolve import Evolver
        from django_evolution.utils import migrations as _mg
        # every run stands for a fresh process: prepare_tasks() leaves its
        # process-global registry of custom migrations set when the
        # preparation raises, and the next Evolver in the same process
        # would die on an assertion (see DESIGN 7.1)
        _mg._global_custom_migrations = None
        del drv.EVENTS[:]
        drv.FAULT.update({'at': fault_at, 'count': 0, 'fired': None,
                          'armed': False, 'any': bool(direct)})
        rec = {'lock_before': mgmt._evolve_lock, 'via': via}
        exc = None
        returned = False
        if via == 'cmd' and not direct:
            # the whole run through the management command
            import io
            from django.core.management import call_command
            try:
                drv.emit('mark', what='prepare_start')
                drv.FAULT['armed'] = True
                try:
                    call_command('evolve', execute=True, interactive=False,
                                 verbosity=0, stdout=io.StringIO(),
                                 stderr=io.StringIO())
                    returned = True
                finally:
                    drv.FAULT['armed'] = False
                    drv.emit('mark', what='evolve_end')
            except BaseException as e:
                exc = e
            rec['required'] = None
            return finish(rec, returned, exc)
        try:
            ev = Evolver()
            if direct:
                drv.emit('mark', what='prepare_start')
                ev.queue_evolve_all_apps()
                drv.FAULT['armed'] = True
                drv.emit('mark', what='evolve_start')
                try:
                    ev.evolve()
                    returned = True
                finally:
                    drv.FAULT['armed'] = False
                    drv.emit('mark', what='evolve_end')
                rec['required'] = None
                return finish(rec, returned, None)
            # everything from here on is the run proper: preparation must
            # not change the database
            drv.emit('mark', what='prepare_start')
            ev.queue_evolve_all_apps()
            rec['required'] = bool(ev.get_evolution_required())
            if only_if_required and not rec['required']:
                # what the evolve command does: nothing to do, no evolve()
                returned = True
                rec['skipped_not_required'] = True
            else:
                drv.FAULT['armed'] = True
                drv.emit('mark', what='evolve_start')
                try:
                    ev.evolve()
                    returned = True
                finally:
                    drv.FAULT['armed'] = False
                    drv.emit('mark', what='evolve_end')
        except BaseException as e:
            exc = e
        return finish(rec, returned, exc)

    def finish(rec, returned, exc):
        rec['returned'] = returned
        rec['outcome'] = drv.outcome_of(exc)
        rec['lock_after'] = mgmt._evolve_lock
        rec['fired'] = drv.FAULT['fired']
        rec['n_inrun'] = drv.FAULT['count']
        # compact event log of the run
        evs = []
        in_reb = False
        for e in drv.EVENTS:
            if e['kind'] == 'sql':
                if not e.get('mutating'):
                    continue
                if e['sql'].lstrip().upper().startswith(
                        'CREATE TABLE "TEMP_TABLE"'):
                    in_reb = True
                evs.append({'k': 'sql', 'sql': e['sql'][:160],
                            'ok': e['ok'], 'inj': bool(e.get('injected')),
                            'inrun': bool(e.get('inrun')),
                            'cls': classify_stmt(e['sql'], in_reb)})
                if e['sql'].lstrip().upper().startswith(
                        'ALTER TABLE "TEMP_TABLE" RENAME'):
                    in_reb = False
            elif e['kind'] in ('commit', 'rollback'):
                evs.append({'k': e['kind']})
            elif e['kind'] == 'signal':
                d = {'k': 'signal', 'name': e['name']}
                for f in ('evolutions', 'app', 'migration', 'model_names',
                          'exception'):
                    if f in e:
                        d[f] = e[f]
                evs.append(d)
            elif e['kind'] == 'mark':
                evs.append({'k': 'mark', 'what': e['what']})
        rec['events'] = evs
        rec['recorded_labels'] = recorded_labels(work)
        for alias in connections:
            try:
                connections[alias].close()
            except Exception:
                pass
        return rec

    out = {'runs': []}
    pre = db_state(base)
    restore(base)
    clean = one_run(None)
    clean_state = db_state(work)
    n = clean['n_inrun']
    out['clean'] = clean
    out['n_statements'] = n
    out['clean_changed'] = bool(diff_state(pre, clean_state))
    out['labels_before'] = recorded_labels(base)
    # a further run with nothing to do (for the signal specification)
    if clean['outcome']['ok']:
        shutil.copyfile(work, work + '.clean')
        noop = one_run(None, only_if_required=True)
        out['noop'] = noop
        out['noop_changed'] = bool(diff_state(clean_state, db_state(work)))
        shutil.copyfile(work + '.clean', work)
        os.unlink(work + '.clean')
    if not clean['outcome']['ok']:
        out['events'] = []
        return out
    ks = list(range(1, n + 1))
    if len(ks) > max_k:
        step = len(ks) / float(max_k)
        ks = sorted(set(ks[int(i * step)] for i in range(max_k)))
    for k in ks:
        restore(base)
        rec = one_run(k)
        rec['k'] = k
        post = db_state(work)
        rec['post_failure_diff'] = diff_state(pre, post)
        # retry on what the failed run left behind
        shutil.copyfile(work, work + '.failed')
        retry = one_run(None)
        rec['retry_outcome'] = retry['outcome']
        rec['retry_required'] = retry.get('required')
        rec['retry_diff'] = diff_state(clean_state, db_state(work))
        rec['retry_events'] = [e for e in retry['events']
                               if e['k'] == 'signal']
        os.unlink(work + '.failed')
        out['runs'].append(rec)
    # faults while the run is being prepared (API only): the j-th statement
    # of any kind after the Evolver was constructed
    out['prep_runs'] = []
    if via == 'api' and args.get('prep_faults'):
        for j in args['prep_faults']:
            restore(base)
            rec = one_run(int(j), direct=True)
            rec['k'] = 'prep%d' % int(j)
            out['prep_runs'].append(rec)
    out['events'] = []
    return out
