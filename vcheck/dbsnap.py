"""Normalised SQLite schema + row snapshots (PRAGMAs only; works on a Django
connection's cursor or a plain sqlite3 connection).

What is compared (DESIGN 2.3): table set; per table the columns
{name: (declared type, notnull, pk)}, the set of indexes
(column-or-expression list with DESC flags, unique, partial predicate), table
and column level CHECK clauses, foreign keys (from -> table.to), rows.
Not compared: names of indexes/constraints, column order, AUTOINCREMENT,
DEFERRABLE spelling, inline UNIQUE vs CREATE UNIQUE INDEX.
"""
import re

OWN_TABLES = ('django_project_version', 'django_evolution',
              'django_migrations', 'django_content_type', 'sqlite_sequence')


def _rows(cur, sql):
    cur.execute(sql)
    return cur.fetchall()


def _q(name):
    return '"%s"' % name.replace('"', '""')


def squeeze(s):
    return re.sub(r'\s+', ' ', s or '').strip()


def norm_expr(text):
    """Normalise a CHECK / WHERE expression for comparison."""
    t = squeeze(text).lower()
    t = t.replace('"', '').replace('`', '')
    t = re.sub(r'\s*([()<>=,])\s*', r'\1', t)
    # strip fully-enclosing parentheses
    while t.startswith('(') and _matching(t, 0) == len(t) - 1:
        t = t[1:-1]
    return t


def _matching(t, i):
    depth = 0
    in_s = False
    for j in range(i, len(t)):
        c = t[j]
        if c == "'":
            in_s = not in_s
        if in_s:
            continue
        if c == '(':
            depth += 1
        elif c == ')':
            depth -= 1
            if depth == 0:
                return j
    return -1


def parse_checks(create_sql):
    """Return sorted list of normalised CHECK clause bodies of a CREATE TABLE."""
    out = []
    if not create_sql:
        return out
    for m in re.finditer(r'\bCHECK\s*\(', create_sql, re.I):
        start = create_sql.index('(', m.start())
        end = _matching(create_sql, start)
        if end > 0:
            out.append(norm_expr(create_sql[start:end + 1]))
    return sorted(out)


def snapshot(cur, with_rows=True, skip=OWN_TABLES):
    snap = {}
    tables = _rows(cur, "SELECT name, sql FROM sqlite_master "
                        "WHERE type='table' AND name NOT LIKE 'sqlite_%'")
    for name, sql in tables:
        if name in skip:
            continue
        cols = {}
        for cid, cname, ctype, notnull, dflt, pk in _rows(
                cur, 'PRAGMA table_info(%s)' % _q(name)):
            cols[cname] = [squeeze(ctype).lower(), int(bool(notnull)),
                           int(bool(pk)), dflt]
        indexes = []
        for row in _rows(cur, 'PRAGMA index_list(%s)' % _q(name)):
            iname, unique, origin, partial = row[1], row[2], row[3], row[4]
            if origin == 'pk':
                continue
            parts = []
            for xi in _rows(cur, 'PRAGMA index_xinfo(%s)' % _q(iname)):
                # seqno, cid, name, desc, coll, key
                if not xi[5]:
                    continue
                parts.append([xi[2], int(xi[3])])
            isql = _rows(cur, "SELECT sql FROM sqlite_master WHERE "
                              "type='index' AND name='%s'"
                         % iname.replace("'", "''"))
            isql = isql[0][0] if isql and isql[0][0] else ''
            where = ''
            if partial and isql:
                m = re.search(r'\)\s*WHERE\s+(.*)$', isql, re.I | re.S)
                if m:
                    where = norm_expr(m.group(1))
            if any(p[0] is None for p in parts):
                # expression index: use the normalised definition text
                m = re.search(r'\bON\s+\S+\s*(\(.*)$', isql, re.I | re.S)
                parts = [['expr:' + norm_expr(m.group(1) if m else isql), 0]]
            indexes.append({'cols': parts, 'unique': int(bool(unique)),
                            'where': where, 'name': iname,
                            'origin': origin})
        fks = []
        for fk in _rows(cur, 'PRAGMA foreign_key_list(%s)' % _q(name)):
            # id, seq, table, from, to, ...
            fks.append([fk[3], fk[2], fk[4]])
        ent = {
            'columns': cols,
            'indexes': indexes,
            'checks': parse_checks(sql),
            'fks': sorted(fks, key=lambda x: (x[0], x[1], x[2] or '')),
            'sql': sql,
        }
        if with_rows:
            ent['rows'] = table_rows(cur, name)
        snap[name] = ent
    return snap


def table_rows(cur, name):
    cur.execute('SELECT * FROM %s' % _q(name))
    colnames = [d[0] for d in cur.description]
    rows = []
    for r in cur.fetchall():
        rows.append({c: _val(v) for c, v in zip(colnames, r)})
    return rows


def _val(v):
    if isinstance(v, (bytes, memoryview)):
        return 'b:' + bytes(v).hex()
    return v


def fk_check(cur):
    return [list(r) for r in _rows(cur, 'PRAGMA foreign_key_check')]


def index_key(ix):
    return (tuple((c, d) for c, d in ix['cols']), ix['unique'], ix['where'])


def index_keys(tsnap):
    return set(index_key(ix) for ix in tsnap['indexes'])


def diff_table(name, got, exp, compare_default=False, count_duplicates=False):
    """Discrepancy items between two table snapshots (got=evolved, exp=fresh).
    count_duplicates: also report an index definition (columns, uniqueness,
    predicate) that exists a different number of times on the two sides (only
    meaningful when both sides were produced by the same code)."""
    items = []
    if count_duplicates:
        import collections
        gn = collections.Counter(index_key(ix) for ix in got['indexes'])
        en = collections.Counter(index_key(ix) for ix in exp['indexes'])
        for k in sorted(set(gn) & set(en), key=repr):
            if gn[k] != en[k]:
                items.append({'type': 'INDEX_COUNT_DIFFERS', 'table': name,
                              'cols': [c for c, _d in k[0]],
                              'unique': k[1], 'where': k[2],
                              'got': gn[k], 'exp': en[k]})
    gc, ec = got['columns'], exp['columns']
    for c in sorted(set(gc) | set(ec)):
        if c not in gc:
            items.append({'type': 'MISSING_COLUMN', 'table': name, 'col': c})
        elif c not in ec:
            items.append({'type': 'EXTRA_COLUMN', 'table': name, 'col': c})
        else:
            g, e = gc[c], ec[c]
            if g[0] != e[0]:
                items.append({'type': 'COLUMN_TYPE', 'table': name, 'col': c,
                              'got': g[0], 'exp': e[0]})
            if g[1] != e[1]:
                items.append({'type': 'COLUMN_NOTNULL', 'table': name,
                              'col': c, 'got': g[1], 'exp': e[1]})
            if g[2] != e[2]:
                items.append({'type': 'COLUMN_PK', 'table': name, 'col': c,
                              'got': g[2], 'exp': e[2]})
            if compare_default and g[3] != e[3]:
                items.append({'type': 'COLUMN_DEFAULT', 'table': name,
                              'col': c, 'got': g[3], 'exp': e[3]})
    gi, ei = index_keys(got), index_keys(exp)
    for k in sorted(ei - gi, key=repr):
        names = [c for c, _d in k[0]]
        items.append({'type': 'MISSING_INDEX', 'table': name,
                      'cols': names,
                      'desc': [d for _c, d in k[0]],
                      'unique': k[1], 'where': k[2],
                      # evidence: another index/constraint on the very same
                      # columns exists (differing in order flags, predicate
                      # or uniqueness)
                      'same_cols_other_index': any(
                          [c for c, _d in g[0]] == names for g in gi)})
    for k in sorted(gi - ei, key=repr):
        items.append({'type': 'EXTRA_INDEX', 'table': name,
                      'cols': [c for c, _d in k[0]],
                      'desc': [d for _c, d in k[0]],
                      'unique': k[1], 'where': k[2]})
    gk, ek = list(got['checks']), list(exp['checks'])
    for c in ek:
        if c in gk:
            gk.remove(c)
        else:
            items.append({'type': 'MISSING_CHECK', 'table': name, 'check': c})
    for c in gk:
        items.append({'type': 'EXTRA_CHECK', 'table': name, 'check': c})
    gf = set(map(tuple, got['fks']))
    ef = set(map(tuple, exp['fks']))
    for f in sorted(ef - gf, key=repr):
        items.append({'type': 'MISSING_FK', 'table': name, 'fk': list(f)})
    for f in sorted(gf - ef, key=repr):
        items.append({'type': 'EXTRA_FK', 'table': name, 'fk': list(f)})
    return items


def diff_schema(got, exp, count_duplicates=False):
    items = []
    for t in sorted(set(got) | set(exp)):
        if t not in got:
            items.append({'type': 'MISSING_TABLE', 'table': t})
        elif t not in exp:
            items.append({'type': 'EXTRA_TABLE', 'table': t})
        else:
            items.extend(diff_table(t, got[t], exp[t],
                                    count_duplicates=count_duplicates))
    return items


def strip_rows(snap):
    return {t: {k: v for k, v in e.items() if k != 'rows'}
            for t, e in snap.items()}
