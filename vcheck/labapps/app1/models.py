# placeholder: lab models are registered dynamically
