"""C01 - evolved database schema equals the schema of freshly created models.

Differential oracle between two real executions: (a) the start models are
created by Django's schema editor, then evolved by django-evolution's real
AppMutator -> to_sql() -> SQLExecutor path with DatabaseState scanned from
the database; (b) the evolved model set is created from scratch by Django's
schema editor on a second database.  Normalised snapshots must agree, and
tables of models the evolution neither names nor relates to must be untouched.
"""
from .. import dbsnap, edits as E, labenv, oracle, seqcase, siglab
from .. import specs as S

ID = 'C01'
LEVEL = 'exploration'
RULE = ('cases = generated start model set (1-3 models, 1-2 apps, all field '
        'kinds / Meta options of the quantifier) x generated evolution: '
        '"walk" = random walk of edits, each accepted by the real '
        'run_simulation on the current signature, executed one mutation per '
        'AppMutator; "hint" = Diff(old,new).evolution() of two generated '
        'model sets executed per app through one optimising AppMutator. '
        'non-trivial = at least one DDL statement was traced and the start '
        'snapshot differs from the target snapshot; distinct = canonical '
        'hash of (start spec, edit list).')
ASSUMPTIONS = [
    'SQLite backend only (Django 4.2, in-memory databases)',
    'Django schema_editor.create_model is the trusted reference for the '
    'fresh schema',
    'index/constraint names, column order, AUTOINCREMENT, DEFERRABLE '
    'spelling, inline UNIQUE vs CREATE UNIQUE INDEX are not compared',
    'field renames, deletes, type and db_column changes only target fields '
    'not referenced by Meta options; delete_model only for unreferenced '
    'models; a hint never re-adds a field name it deleted',
]
FLOORS = {'quick': {'nontrivial': 40, 'ddl_statements': 100},
          'thorough': {'nontrivial': 400, 'ddl_statements': 1000}}
SIZES = {'quick': (1400, 600), 'thorough': (7000, 3000)}


def eff_seed(seed):
    return seed % 8


def plan(tier, seed):
    es = eff_seed(seed)
    nwalk, nhint = SIZES[tier]
    descs = [{'mode': 'walk', 'seed': es, 'i': i} for i in range(nwalk)]
    descs += [{'mode': 'hint', 'seed': es, 'i': i} for i in range(nhint)]
    return descs


def worker_setup():
    labenv.setup()


def build_case(desc):
    """Deterministic case from its descriptor (needs Django for validation)."""
    if desc.get('mode') == 'explicit':
        return desc['case']
    rng = seqcase.rng_for('C01', desc['mode'], desc['seed'], desc['i'])
    two_apps = rng.random() < 0.4
    gen = E.SpecGen(rng, apps=('app1', 'app2') if two_apps else ('app1',))
    spec0 = gen.gen_spec()
    classes = S.build_models(spec0)
    psig0 = S.project_sig(classes, apps_order=list(spec0))
    if desc['mode'] == 'walk':
        length = rng.choice([1, 1, 2, 2, 3, 4, 5, 6, 8])
        edits, specs, _rej = seqcase.gen_walk(rng, gen, spec0, length, psig0)
    else:
        ops = ['add_field'] * 4 + ['delete_field'] * 3 + \
            ['change_field'] * 5 + ['change_meta'] * 5 + ['delete_model']
        length = rng.choice([1, 2, 3, 4, 6])
        gen.no_name_reuse = True
        edits, specs, _rej = seqcase.gen_walk(rng, gen, spec0, length, psig0,
                                              ops=ops)
    return {'mode': desc['mode'], 'spec0': spec0, 'edits': edits,
            'target': specs[-1]}


def concrete_initials(mutations, rng):
    """Replace <<USER VALUE REQUIRED>> placeholders by a concrete initial, as
    the hint asks the user to."""
    from django_evolution.placeholders import BasePlaceholder
    from django.db import models
    for m in mutations:
        ini = getattr(m, 'initial', None)
        if isinstance(ini, BasePlaceholder):
            ft = getattr(m, 'field_type', None)
            if ft is not None and issubclass(
                    ft, (models.CharField, models.TextField)):
                m.initial = rng.choice(['', 'x', "it's"])
            elif ft is not None and issubclass(ft, models.DateTimeField):
                m.initial = '2020-01-02 03:04:05'
            elif ft is not None and issubclass(ft, models.BooleanField):
                m.initial = True
            elif ft is None:
                # ChangeField(null=False): type unknown here; 0/'' both load
                m.initial = 0
            else:
                m.initial = 1
    return mutations


def run_case(desc):
    case = build_case(desc)
    spec0, edits, target = case['spec0'], case['edits'], case['target']
    rng = seqcase.rng_for('C01x', S.canon(desc))
    lab = siglab.Lab('default')
    lab.start(spec0)
    before = lab.snapshot()
    # replay the spec history (specs before each edit) for attribution
    history = [spec0]
    for e in edits:
        history.append(E.apply_edit(history[-1], e))
    assert S.canon(history[-1]) == S.canon(target)
    # the evolver runs with the *new* models registered
    tclasses = S.build_models(target)
    tsig = S.project_sig(tclasses, apps_order=list(target))
    items, rebuilt, kinds, traces = [], [], {}, []
    n_ddl = 0
    stats = {'mode_' + case['mode']: 1, 'mutations': 0}
    ok = True
    if case['mode'] == 'hint':
        from django_evolution.diff import Diff
        try:
            hinted = Diff(lab.psig, tsig).evolution()
        except Exception as e:
            items.append(siglab.exc_item('HINT_ERROR', e))
            hinted, ok = {}, False
        # apps whose hint deletes models go last (a cross-app referrer must
        # drop its relation first; the real evolver needs declared
        # dependencies for that, which is C09's subject, not C01's)
        order = sorted(target, key=lambda a: any(
            type(m).__name__ == 'DeleteModel' for m in hinted.get(a, [])))
        for app in order:
            muts = concrete_initials(list(hinted.get(app, [])), rng)
            if not muts:
                continue
            stats['mutations'] += len(muts)
            r = lab.evolve(app, muts, optimise=True)
            traces.append(r['trace'])
            rebuilt += r['trace'].rebuilds()
            n_ddl += len(r['trace'].mutating())
            _merge(kinds, siglab.sql_kinds(r['trace']))
            if not r['ok']:
                r['error']['mutations'] = [str(m) for m in muts]
                r['error']['rebuilds_in_batch'] = len(r['trace'].rebuilds())
                items.append(r['error'])
                ok = False
                break
        case['hinted'] = {a: [str(m) for m in ms]
                          for a, ms in hinted.items()}
    else:
        for i, e in enumerate(edits):
            m = E.to_mutation(history[i], e)
            stats['mutations'] += 1
            r = lab.evolve(e['app'], [m], optimise=True)
            traces.append(r['trace'])
            rebuilt += r['trace'].rebuilds()
            n_ddl += len(r['trace'].mutating())
            _merge(kinds, siglab.sql_kinds(r['trace']))
            if not r['ok']:
                r['error']['mutation'] = str(m)
                r['error']['op'] = seqcase.op_kinds([e])[0]
                r['error']['step'] = i
                r['error']['rebuilds_in_batch'] = len(r['trace'].rebuilds())
                items.append(r['error'])
                ok = False
                break
    stats['ddl_statements'] = n_ddl
    stats['rebuilds'] = len(rebuilt)
    stats['sql_kinds'] = kinds
    stats['op_kinds'] = {}
    for k in seqcase.op_kinds(edits):
        stats['op_kinds'][k] = stats['op_kinds'].get(k, 0) + 1
    nontrivial = False
    if ok:
        got = lab.snapshot()
        # guard on the reference model: simulated signature == signature of
        # the target classes
        eq, e1, e2, d1, d2 = siglab.sig_equal(lab.psig, tsig)
        if not (e1 and e2):
            items.append({'type': 'REFMODEL_DISAGREES', 'diff': (d1 or d2)[:400],
                          'ops': seqcase.op_kinds(edits)})
        _cls, fresh = siglab.fresh_snapshot(target, 'fresh')
        sitems = dbsnap.diff_schema(dbsnap.strip_rows(got), fresh)
        oracle.attribute(sitems, target, history,
                         siglab.rebuilt_lineage(traces))
        items.extend(sitems)
        # untouched tables
        named = oracle.named_models(edits)
        touched = oracle.related_closure(history, named)
        for app, mods in spec0.items():
            for mname in mods:
                if (app, mname) in touched or (app, '*') in named:
                    continue
                if mname not in target.get(app, {}):
                    continue
                for t in S.owned_tables(spec0, app, mname):
                    b, a = before.get(t), got.get(t)
                    if a is None or b['sql'] != a['sql'] or \
                            sorted(i['name'] for i in b['indexes']) != \
                            sorted(i['name'] for i in a['indexes']):
                        items.append({'type': 'UNTOUCHED_CHANGED',
                                      'table': t})
                stats['untouched_tables_checked'] = stats.get(
                    'untouched_tables_checked', 0) + 1
        nontrivial = n_ddl > 0 and dbsnap.strip_rows(before) != got and \
            S.canon(spec0) != S.canon(target)
    else:
        nontrivial = bool(edits)
    oracle.add_evidence(items, edits, history)
    for it in items:
        it['batched'] = case['mode'] == 'hint'
    stats['snapshots_compared'] = 1 if ok else 0
    return {'key': S.canon([spec0, edits]), 'nontrivial': bool(nontrivial),
            'items': items, 'stats': stats, 'case': case}


def _merge(d, s):
    for k, v in s.items():
        d[k] = d.get(k, 0) + v
