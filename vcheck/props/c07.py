"""C07 - a failed upgrade leaves the database as it was and can be retried.

Fault enumeration on real executions: for each generated single-batch upgrade
a clean run counts the N mutating statements issued inside
SQLExecutor.run_sql(execute=True) during Evolver.evolve(); then *every* k in
1..N is replaced by an injected database error.  Oracles: the error is an
EvolutionExecutionError naming the replaced statement; the database after the
failed run (schema, rows, Evolution/Version rows, stored signature) equals the
pre-run snapshot; a fault-free retry ends in the state of the uninterrupted
run.
"""
from .. import faultlab, labenv
from .. import specs as S

ID = 'C07'
LEVEL = 'fault_enumeration'
RULE = ('cases = generated single-batch upgrades V0->V1 (1-4 mutations of '
        'the C01 space incl. rebuilds, index and Meta changes; half of them '
        'also create a new model with FK/M2M -> model creation + deferred '
        'SQL) on a database holding rows; for each, every statement index k '
        '(all k <= N, capped at 60) is made to fail, followed by a retry. '
        'non-trivial crash point = the fault fired and at least one mutating '
        'statement preceded it; distinct = (upgrade hash, k).')
ASSUMPTIONS = [
    'SQLite (transactional DDL); faults are injected as '
    'django.db.utils.OperationalError raised instead of executing the '
    'statement',
    'injection points are the statements run through SQLExecutor.run_sql '
    'during Evolver.evolve(); bookkeeping INSERTs (Version/Evolution) and '
    'other apps\' post_migrate handlers are exercised by C17/C08',
    'upgrades whose clean run fails are skipped (C01 matter)',
]
FLOORS = {'quick': {'nontrivial': 60, 'faults_fired': 80},
          'thorough': {'nontrivial': 900, 'faults_fired': 1200}}
SIZES = {'quick': 96, 'thorough': 800}
TIMEOUT = {'quick': 170, 'thorough': 1700}


def eff_seed(seed):
    return seed % 8


def plan(tier, seed):
    es = eff_seed(seed)
    return [{'mode': 'upgrade', 'seed': es, 'i': i}
            for i in range(SIZES[tier])]


def worker_setup():
    labenv.setup()


def analyse(res, items, stats):
    """C07 oracle over the fault-loop records."""
    clean_cls = [e['cls'] for e in res['clean']['events']
                 if e['k'] == 'sql']
    for rec in res.get('runs', []):
        k = rec['k']
        stats['crash_points'] = stats.get('crash_points', 0) + 1
        if not rec.get('fired'):
            stats['faults_not_fired'] = stats.get('faults_not_fired', 0) + 1
            continue
        stats['faults_fired'] = stats.get('faults_fired', 0) + 1
        inj = [e for e in rec['events'] if e['k'] == 'sql' and e['inj']]
        cls = inj[0]['cls'] if inj else 'unknown'
        stats.setdefault('crash_kinds', {})
        stats['crash_kinds'][cls] = stats['crash_kinds'].get(cls, 0) + 1
        before = [e for e in rec['events'][:rec['events'].index(inj[0])]
                  if e['k'] == 'sql'] if inj else []
        # position evidence: how many mutating statements of this run had
        # already been committed (in earlier transactions of the same
        # evolve()) when the fault hit
        persisted, pending, started = 0, 0, False
        for e in rec['events']:
            if e['k'] == 'mark' and e['what'] == 'evolve_start':
                started = True
            elif not started:
                continue
            elif e['k'] == 'sql':
                if e['inj']:
                    break
                if e['ok']:
                    pending += 1
            elif e['k'] == 'commit':
                persisted += pending
                pending = 0
            elif e['k'] == 'rollback':
                pending = 0
        ev = {'k': k, 'crash_kind': cls,
              'stmts_before_in_run': len(before),
              'persisted_before_fault': persisted,
              'earlier_txn_committed': persisted > 0}
        stats['crash_points_strict' if persisted == 0 else
              'crash_points_after_committed_batch'] = stats.get(
            'crash_points_strict' if persisted == 0 else
            'crash_points_after_committed_batch', 0) + 1
        o = rec['outcome']
        if o['ok']:
            items.append(dict(ev, type='FAULT_SWALLOWED'))
            continue
        if 'EvolutionExecutionError' not in o.get('mro', []):
            items.append(dict(ev, type='WRONG_ERROR_TYPE', exc=o['exc'],
                              site=o.get('site'), msg=o.get('msg', '')[:200]))
        else:
            fired = (rec['fired'] or '').strip()
            last = (o.get('last_sql') or '').strip()
            if not last or fired.rstrip(';') not in last and \
                    last.rstrip(';') not in fired:
                items.append(dict(ev, type='WRONG_FAILING_STATEMENT',
                                  reported=last[:120], fired=fired[:120]))
        commits_after = 0
        seen = False
        for e in rec['events']:
            if e['k'] == 'sql' and e['inj']:
                seen = True
            elif seen and e['k'] == 'commit':
                commits_after += 1
        for d in rec['post_failure_diff']:
            items.append(dict(ev, type='STATE_CHANGED_BY_FAILED_RUN',
                              what=d['what'], table=d.get('table'),
                              commits_after_fault=commits_after))
        ro = rec['retry_outcome']
        if not ro['ok']:
            items.append(dict(ev, type='RETRY_FAILED', exc=ro['exc'],
                              site=ro.get('site'), msg=ro.get('msg', '')[:200],
                              dirty=bool(rec['post_failure_diff'])))
        else:
            for d in rec['retry_diff']:
                items.append(dict(ev, type='RETRY_DIFFERS', what=d['what'],
                                  table=d.get('table'),
                                  dirty=bool(rec['post_failure_diff'])))
    return clean_cls


def run_case(desc):
    h, res = faultlab.run_upgrade('C07', desc)
    case = faultlab.case_of(h)
    stats = {'upgrades': 1}
    items = []
    key = S.canon([h.specs, h.steps])
    if res.get('install_error') or res.get('driver_error'):
        return {'key': key, 'nontrivial': False, 'items': [],
                'stats': {'skipped_setup_failed': 1}, 'case': case,
                'harness_error': None if res.get('install_error') else
                str(res)[:800]}
    if not res['clean']['outcome']['ok']:
        stats['skipped_clean_failed'] = 1
        return {'key': key, 'nontrivial': False, 'items': [],
                'stats': stats, 'case': case}
    stats['statements_in_clean_run'] = res['n_statements']
    if res['n_statements'] == 0:
        stats['skipped_no_statements'] = 1
    analyse(res, items, stats)
    for it in items:
        it['new_models'] = bool(case['new_models'])
    fired = stats.get('faults_fired', 0)
    return {'key': key, 'nontrivial': fired > 0, 'items': items,
            'stats': stats, 'case': case, 'weight': max(1, fired),
            'nontrivial_weight': len([r for r in res.get('runs', [])
                                      if r.get('fired') and r['k'] > 1])}
