"""C09 - execution order respects every evolution/migration dependency.

Part 1 (this module's "core" pool, exhaustive): the real DependencyGraph is
driven through add_node/add_dependency/finalize/get_ordered for *every*
labelled digraph of the scope.  Oracle (independent Kahn pass): an acyclic
graph must yield a permutation of all nodes in which every dependency comes
first, identically on a second identical run; a cyclic graph must raise, never
return a shortened or edge-violating list.

Part 2 ("pipeline" pool): generated on-disk projects with evolution /
migration dependencies, order observed through the lifecycle signals
(see vcheck/projlab.py).
"""
import itertools

from .. import labenv

ID = 'C09'
LEVEL = 'exploration'
RULE = ('core: every digraph on <= 4 labelled nodes including self-loops '
        '(quick: 2^16 + smaller) and every loop-free digraph on 5 nodes '
        '(thorough: 2^20), each fed to the real DependencyGraph in node '
        'order 0..n-1 and, for a sample, in a shuffled insertion order. '
        'pipeline: generated projects of 2-5 apps with pending evolutions, '
        'new models, AFTER_/BEFORE_ dependencies and migrations. '
        'non-trivial = graph with at least one edge; distinct = the '
        'adjacency bitmask (+ insertion order).')
ASSUMPTIONS = [
    'the ordering core is DependencyGraph.get_ordered(); EvolutionGraph '
    'adds typed nodes on top of it and is exercised by the pipeline pool',
]
FLOORS = {'quick': {'second_database_projects': 5, 
                    'nontrivial': 60000, 'acyclic_checked': 500,
                    'cyclic_checked': 500, 'mig_orders_checked': 40,
                    'cross_stage_projects': 10},
          'thorough': {'second_database_projects': 30, 
                       'nontrivial': 1000000, 'acyclic_checked': 10000,
                       'cyclic_checked': 10000,
                       'mig_orders_checked': 400,
                       'cross_stage_projects': 100}}
EXHAUSTIVE = {'quick': True, 'thorough': True}
CHUNK = 4096
TIMEOUT = {'quick': 170, 'thorough': 1500}


def eff_seed(seed):
    return seed % 8


def plan(tier, seed):
    descs = []
    # n <= 4 with self loops: n*n bits
    for n in (1, 2, 3, 4):
        total = 1 << (n * n)
        for start in range(0, total, CHUNK):
            descs.append({'mode': 'core', 'n': n, 'loops': True,
                          'start': start, 'end': min(total, start + CHUNK)})
    if tier == 'thorough':
        total = 1 << 20
        for start in range(0, total, CHUNK * 4):
            descs.append({'mode': 'core', 'n': 5, 'loops': False,
                          'start': start,
                          'end': min(total, start + CHUNK * 4)})
    try:
        from . import c09_pipeline
        descs += c09_pipeline.plan(tier, eff_seed(seed))
        descs += c09_pipeline.plan_mig(tier, eff_seed(seed))
    except ImportError:
        pass
    return descs


def worker_setup():
    labenv.setup()


def edges_of(n, mask, loops):
    """Edge (i, j) means: node i depends on node j."""
    out = []
    if loops:
        for i in range(n):
            for j in range(n):
                if mask >> (i * n + j) & 1:
                    out.append((i, j))
    else:
        pairs = [(i, j) for i in range(n) for j in range(n) if i != j]
        for k, (i, j) in enumerate(pairs):
            if mask >> k & 1:
                out.append((i, j))
    return out


def acyclic(n, edges):
    """Independent Kahn pass."""
    indeg = [0] * n
    adj = [[] for _ in range(n)]
    for i, j in edges:
        if i == j:
            return False
        adj[j].append(i)
        indeg[i] += 1
    q = [k for k in range(n) if indeg[k] == 0]
    seen = 0
    while q:
        k = q.pop()
        seen += 1
        for m in adj[k]:
            indeg[m] -= 1
            if indeg[m] == 0:
                q.append(m)
    return seen == n


def drive(n, edges, order=None):
    """Feed the real DependencyGraph; -> ('ok', [keys]) | ('raised', exc)."""
    from django_evolution.utils.graph import DependencyGraph
    g = DependencyGraph()
    for k in (order or range(n)):
        g.add_node('n%d' % k)
    for i, j in edges:
        g.add_dependency('n%d' % i, 'n%d' % j)
    try:
        g.finalize()
        res = g.get_ordered()
    except Exception as e:
        return 'raised', type(e).__name__
    return 'ok', [int(node.key[1:]) for node in res]


def check_graph(n, mask, loops, items, stats, order=None):
    edges = edges_of(n, mask, loops)
    is_acyclic = acyclic(n, edges)
    kind, res = drive(n, edges, order)
    if is_acyclic:
        stats['acyclic_checked'] += 1
        if kind != 'ok':
            items.append({'type': 'ACYCLIC_RAISED', 'n': n, 'mask': mask,
                          'loops': loops, 'exc': res})
            return
        if sorted(res) != list(range(n)):
            items.append({'type': 'NOT_A_PERMUTATION', 'n': n, 'mask': mask,
                          'loops': loops, 'result': res})
            return
        pos = {k: p for p, k in enumerate(res)}
        for i, j in edges:
            if pos[j] > pos[i]:
                items.append({'type': 'EDGE_VIOLATED', 'n': n, 'mask': mask,
                              'loops': loops, 'edge': [i, j], 'result': res})
                return
        kind2, res2 = drive(n, edges, order)
        if (kind2, res2) != (kind, res):
            items.append({'type': 'NONDETERMINISTIC', 'n': n, 'mask': mask,
                          'loops': loops})
    else:
        stats['cyclic_checked'] += 1
        if kind == 'ok':
            what = 'short' if len(res) < n else 'full'
            items.append({'type': 'CYCLE_NOT_REPORTED', 'n': n, 'mask': mask,
                          'loops': loops, 'returned': what,
                          'self_loop': any(i == j for i, j in edges)})


def run_case(desc):
    if desc['mode'] != 'core':
        from . import c09_pipeline
        if desc['mode'] == 'pipeline_mig':
            return c09_pipeline.run_mig_case(desc)
        return c09_pipeline.run_case(desc)
    import random
    n, loops = desc['n'], desc['loops']
    items = []
    stats = {'acyclic_checked': 0, 'cyclic_checked': 0, 'graphs': 0}
    rng = random.Random(desc['start'] * 31 + n)
    for mask in range(desc['start'], desc['end']):
        stats['graphs'] += 1
        check_graph(n, mask, loops, items, stats)
        if mask % 97 == 0 and n >= 3:
            order = list(range(n))
            rng.shuffle(order)
            check_graph(n, mask, loops, items, stats, order)
    # collapse: one item per (type, returned, self_loop) with a count
    agg = {}
    for it in items:
        k = (it['type'], it.get('returned'), it.get('self_loop'))
        if k not in agg:
            agg[k] = dict(it, count=0)
        agg[k]['count'] += 1
    return {'key': 'core:%d:%s:%d' % (n, loops, desc['start']),
            'nontrivial': True, 'items': list(agg.values()), 'stats': stats,
            'case': desc, 'weight': desc['end'] - desc['start'],
            # every mask but 0 has at least one edge
            'nontrivial_weight': desc['end'] - desc['start'] -
            (1 if desc['start'] == 0 else 0)}
