"""C02 - evolutions preserve existing row data.

History + reference model: rows are inserted with raw SQL, snapshotted, the
evolution is executed by the real code one mutation per AppMutator, and the
rows read back are compared with the rows the reference row model (refrows)
derives from the same edits: survivors unchanged (followed through field,
model and M2M-table renames and rebuilds), new columns hold the declared
initial (or NULL), null->not-null replaces exactly the NULLs.
"""
from .. import edits as E, labenv, oracle, refrows, seqcase, siglab
from .. import specs as S

ID = 'C02'
LEVEL = 'exploration'
RULE = ('cases = generated start model set + 0-6 raw rows per table (NULLs, '
        'quotes, percent signs, backslashes, unicode, boundary numbers, FK '
        'and M2M links) x random walk of simulation-valid edits executed one '
        'mutation per AppMutator; expected rows come from the reference row '
        'model. non-trivial = at least one pre-existing row in a table that '
        'the statement trace shows was altered (DDL or UPDATE); distinct = '
        'hash of (start spec, rows, edits).')
ASSUMPTIONS = [
    'SQLite backend only',
    'values are compared after SQLite affinity conversion at insert time '
    '(the pre-evolution snapshot is the baseline); columns whose type was '
    'changed are checked for row count only',
    'generated data never makes an accepted evolution fail legitimately '
    '(no constant fill of UNIQUE columns, only satisfiable CHECKs, FK '
    'columns are added nullable)',
]
FLOORS = {'quick': {'relation_adds_with_initial': 8, 
                    'nontrivial': 40, 'values_compared': 500},
          'thorough': {'relation_adds_with_initial': 40, 
                       'nontrivial': 400, 'values_compared': 5000}}
SIZES = {'quick': 1500, 'thorough': 10000}


def eff_seed(seed):
    return seed % 8


def plan(tier, seed):
    es = eff_seed(seed)
    return [{'mode': 'walk', 'seed': es, 'i': i} for i in range(SIZES[tier])]


def worker_setup():
    labenv.setup()


def build_case(desc):
    if desc.get('mode') == 'explicit':
        return desc['case']
    rng = seqcase.rng_for('C02', desc['seed'], desc['i'])
    two_apps = rng.random() < 0.3
    gen = E.SpecGen(rng, apps=('app1', 'app2') if two_apps else ('app1',),
                    rows=True)
    spec0 = gen.gen_spec()
    classes = S.build_models(spec0)
    psig0 = S.project_sig(classes, apps_order=list(spec0))
    rows = seqcase.gen_rows(rng, spec0)
    gen.row_counts = {
        (a, m): len(rows.get(S.model_table(spec0, a, m), []))
        for a, mods in spec0.items() for m in mods}
    length = rng.choice([1, 2, 2, 3, 4, 5, 6])
    ops = ['add_field'] * 5 + ['delete_field'] * 3 + ['rename_field'] * 4 + \
        ['change_field'] * 6 + ['change_meta'] * 2 + ['rename_model'] * 2 + \
        ['delete_model']
    edits, specs, _rej = seqcase.gen_walk(rng, gen, spec0, length, psig0,
                                          ops=ops)
    return {'spec0': spec0, 'rows': rows, 'edits': edits,
            'target': specs[-1]}


def run_case(desc):
    case = build_case(desc)
    spec0, edits, rows = case['spec0'], case['edits'], case['rows']
    lab = siglab.Lab('default')
    lab.start(spec0, rows)
    base = lab.snapshot()
    # baseline = what the database really stores for the inserted rows
    expected = {t: [dict(r) for r in e['rows']] for t, e in base.items()}
    history = [spec0]
    for e in edits:
        history.append(E.apply_edit(history[-1], e))
    S.build_models(history[-1])
    items, traces = [], []
    notes = {}
    stats = {'mutations': 0, 'rows_inserted': sum(len(v) for v in
                                                   expected.values())}
    ok = True
    altered = set()
    for i, e in enumerate(edits):
        m = E.to_mutation(history[i], e)
        stats['mutations'] += 1
        r = lab.evolve(e['app'], [m], optimise=True)
        traces.append(r['trace'])
        if not r['ok']:
            r['error'].update({'mutation': str(m), 'step': i,
                               'op': seqcase.op_kinds([e])[0],
                               'rebuilds_in_batch':
                               len(r['trace'].rebuilds())})
            items.append(r['error'])
            ok = False
            break
        for ev in r['trace'].mutating():
            for t in list(expected):
                if '"%s"' % t in ev['sql']:
                    altered.add(t)
        expected = refrows.apply_edit_rows(expected, history[i],
                                           history[i + 1], e, notes)
    nontrivial = False
    if ok:
        got = lab.snapshot()
        ritems, rstats = refrows.compare_rows(expected, got, notes)
        items.extend(ritems)
        stats.update(rstats)
        fk = lab.fk_check()
        stats['fk_check_rows'] = len(fk)
        rebuilt = siglab.rebuilt_lineage(traces)
        for it in ritems:
            it['rebuilt'] = it.get('table') in rebuilt
            own = oracle.table_owner(history[-1], it.get('table'))
            it['table_kind'] = own[0] if own else None
        nontrivial = any(base.get(t, {}).get('rows') for t in altered)
    else:
        nontrivial = bool(edits)
    oracle.add_evidence(items, edits, history)
    for it in items:
        it['batched'] = False
    stats['rebuilds'] = sum(len(t.rebuilds()) for t in traces)
    stats['relation_adds_with_initial'] = sum(
        1 for e in edits if e.get('rel_initial'))
    stats['op_kinds'] = {}
    for k in seqcase.op_kinds(edits):
        stats['op_kinds'][k] = stats['op_kinds'].get(k, 0) + 1
    return {'key': S.canon([spec0, rows, edits]), 'nontrivial': nontrivial,
            'items': items, 'stats': stats, 'case': case}
