"""C08 - each evolution is applied and recorded exactly once.

Offline log checker: a series of real upgrade runs against one database file
(fresh install, partial upgrades, no-op re-runs, runs limited to one app, an
app gaining evolutions while the other stays, two apps sharing labels,
consistent wipe-evolution / mark-evolution-applied pairs, a failing run
followed by a retry) is recorded (applying/applied_evolution signals,
Evolution rows with their version, outcome) and checked against an executable
model of the applied-log.
"""
from .. import histories, labenv, projlab, seqcase
from .. import specs as S

ID = 'C08'
LEVEL = 'exploration'
RULE = ('cases = generated 2-app histories (clean edit subset, both apps '
        'use labels e1, e2, ...) x a random schedule of 4-8 runs drawn from '
        '{fresh install at any version, upgrade all apps, upgrade one app '
        'only (Evolver.queue_evolve_app), no-op re-run, wipe+mark of a '
        'recorded label, run with an injected failure followed by a retry}. '
        'After every run the model invariants are checked. non-trivial = at '
        'least one evolution was executed and one recorded without being '
        'executed; distinct = hash of (history, schedule).')
ASSUMPTIONS = [
    'SQLite file, one fresh interpreter per run',
    'wipe-evolution / mark-evolution-applied are only used as a consistent '
    'pair on an already recorded label (the commands themselves warn that '
    'anything else desynchronises the log)',
]
FLOORS = {'quick': {'nontrivial': 10, 'runs': 100, 'labels_checked': 100},
          'thorough': {'nontrivial': 150, 'runs': 1500,
                       'labels_checked': 1500}}
SIZES = {'quick': 32, 'thorough': 400}
TIMEOUT = {'quick': 170, 'thorough': 1700}


def eff_seed(seed):
    return seed % 8


def plan(tier, seed):
    es = eff_seed(seed)
    return [{'mode': 'schedule', 'seed': es, 'i': i}
            for i in range(SIZES[tier])]


def worker_setup():
    labenv.setup()


def executed_labels(ev):
    out = []
    for e in ev.get('events', []):
        if e['kind'] == 'signal' and e['name'] == 'applying_evolution':
            out += [tuple(x) for x in e.get('evolutions') or []]
    return out


def run_case(desc):
    rng = seqcase.rng_for('C08', desc['seed'], desc['i'])
    apps = ('app1', 'app2')
    n = rng.randint(2, 3)
    h = histories.gen_history(rng, n, apps=apps)
    proj = projlab.Project()
    items, stats = [], {'schedules': 1, 'runs': 0}
    executed = {}            # (app, label) -> times executed
    recorded_by_run = {}     # (app, label) -> run index that recorded it
    schedule = []
    try:
        labels_at = histories.write_project(proj, h, apps)
        db = 'db.sqlite3'
        ver = {a: rng.randint(0, n - 1) for a in apps}   # per-app version

        def visible(app, v):
            return [(app, 'e%d' % (k + 1)) for k in range(labels_at[app][v])]

        def do_run(kind, apps_sel=None, fault_at=None, action=None):
            stats['runs'] += 1
            args = {}
            if apps_sel:
                args['apps'] = list(apps_sel)
            if fault_at:
                args['fault_at'] = fault_at
            act = action or ('evolve_api' if (apps_sel or fault_at) else
                             rng.choice(['evolve_api', 'evolve_cmd']))
            before_rows = proj.evolution_rows(db)
            before_versions = [r['id'] for r in proj.version_rows(db)]
            ev = proj.run(act, db=db, app_versions=dict(ver), args=args)
            schedule.append({'kind': kind, 'ver': dict(ver),
                             'apps': apps_sel, 'fault_at': fault_at,
                             'action': act})
            ctx = {'run': len(schedule) - 1, 'run_kind': kind}
            if ev.get('driver_error'):
                items.append(dict(ctx, type='DRIVER_ERROR',
                                  detail=str(ev)[:300]))
                return None
            ok = ev['outcome']['ok']
            after_rows = proj.evolution_rows(db)
            after_versions = [r['id'] for r in proj.version_rows(db)]
            new_rows = list(after_rows)
            for r in before_rows:
                if r in new_rows:
                    new_rows.remove(r)
            ex = executed_labels(ev)
            stats['labels_executed'] = stats.get('labels_executed', 0) + \
                len(ex)
            for lab in ex:
                if lab in recorded_by_run:
                    items.append(dict(ctx, type='RECORDED_LABEL_EXECUTED',
                                      label=list(lab)))
                if ok or fault_at is None:
                    executed[lab] = executed.get(lab, 0) + 1
                    if executed[lab] > 1:
                        items.append(dict(ctx, type='EXECUTED_TWICE',
                                          label=list(lab)))
            if not ok:
                if fault_at is None:
                    items.append(dict(ctx, type='RUN_FAILED',
                                      exc=ev['outcome']['exc'],
                                      site=ev['outcome'].get('site'),
                                      msg=ev['outcome'].get('msg', '')[:200]))
                if new_rows:
                    items.append(dict(ctx, type='FAILED_RUN_RECORDED',
                                      labels=[list(r[:2]) for r in new_rows]))
                return ev
            # rows created by this run carry this run's version
            new_versions = [v for v in after_versions
                            if v not in before_versions]
            for a, l, vid in new_rows:
                stats['labels_checked'] = stats.get('labels_checked', 0) + 1
                if (a, l) in recorded_by_run and a in apps:
                    items.append(dict(ctx, type='RECORDED_TWICE',
                                      label=[a, l],
                                      app_emptied=any(
                                          not h.app_models(a, v)
                                          for v in range(n + 1))))
                recorded_by_run[(a, l)] = len(schedule) - 1
                if new_versions and vid not in new_versions:
                    items.append(dict(ctx, type='WRONG_VERSION_ATTACHED',
                                      label=[a, l], version=vid,
                                      new_versions=new_versions))
                if not new_versions and vid != max(after_versions):
                    items.append(dict(ctx, type='WRONG_VERSION_ATTACHED',
                                      label=[a, l], version=vid,
                                      new_versions=new_versions))
            # completeness for the apps this run evolved
            for a in (apps_sel or apps):
                have = [(x, l) for x, l, _v in after_rows if x == a]
                for lab in visible(a, ver[a]):
                    c = have.count(lab)
                    if c != 1:
                        start_same = None
                        items.append(dict(
                            ctx, type='LABEL_NOT_RECORDED_ONCE',
                            label=list(lab), count=c,
                            executed_now=lab in ex,
                            app_emptied=any(not h.app_models(a, v)
                                            for v in range(n + 1)),
                            models_unchanged=getattr(
                                do_run, 'prev_models', {}).get(a) ==
                            S.canon(h.app_models(a, ver[a]))))
            do_run.prev_models = {a: S.canon(h.app_models(a, ver[a]))
                                  for a in apps}
            return ev

        # ---- the schedule
        ev = do_run('fresh')
        fresh_ex = executed_labels(ev) if ev else []
        if fresh_ex:
            items.append({'type': 'FRESH_INSTALL_EXECUTED', 'run': 0,
                          'labels': [list(x) for x in fresh_ex]})
        steps = rng.randint(3, 7)
        for _ in range(steps):
            choices = ['noop']
            if any(ver[a] < n for a in apps):
                choices += ['upgrade_all'] * 3 + ['upgrade_one'] * 2 + \
                    ['fault_retry']
            if recorded_by_run:
                choices.append('wipe_mark')
            kind = rng.choice(choices)
            if kind == 'noop':
                do_run('noop')
            elif kind == 'upgrade_all':
                for a in apps:
                    ver[a] = min(n, ver[a] + rng.randint(0, 2))
                do_run('upgrade_all')
            elif kind == 'upgrade_one':
                a = rng.choice([x for x in apps if ver[x] < n])
                ver[a] = min(n, ver[a] + rng.randint(1, 2))
                do_run('upgrade_one', apps_sel=[a])
            elif kind == 'fault_retry':
                for a in apps:
                    ver[a] = min(n, ver[a] + 1)
                # k=1: nothing of the run is committed yet (later crash
                # points and KF-C07-EARLIER-BATCHES-COMMITTED are C07's)
                do_run('fault', fault_at=1)
                do_run('retry')
            elif kind == 'wipe_mark':
                a, l = rng.choice(sorted(recorded_by_run))
                if a in apps:
                    stats['runs'] += 2
                    proj.run('wipe', db=db, app_versions=dict(ver),
                             args={'app': a, 'labels': [l]})
                    proj.run('mark', db=db, app_versions=dict(ver),
                             args={'app': a, 'labels': [l]})
                    schedule.append({'kind': 'wipe_mark', 'label': [a, l]})
                    rows = [(x, y) for x, y, _v in proj.evolution_rows(db)]
                    if rows.count((a, l)) != 1:
                        items.append({'type': 'WIPE_MARK_COUNT',
                                      'label': [a, l],
                                      'count': rows.count((a, l))})
    finally:
        proj.cleanup()
    nontrivial = bool(executed) and bool(
        set(recorded_by_run) - set(executed))
    return {'key': S.canon([h.specs, schedule]), 'nontrivial': nontrivial,
            'items': items, 'stats': stats,
            'case': {'steps': h.steps, 'schedule': schedule,
                     'labels_at': labels_at}}
