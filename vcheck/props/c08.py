"""C08 - each evolution is applied and recorded exactly once.

Offline log checker: a series of real upgrade runs against one database file
(fresh install, partial upgrades, no-op re-runs, runs limited to one app, an
app gaining evolutions while the other stays, two apps sharing labels,
consistent wipe-evolution / mark-evolution-applied pairs, a failing run
followed by a retry) is recorded (applying/applied_evolution signals,
Evolution rows with their version, outcome) and checked against an executable
model of the applied-log.
"""
from .. import histories, labenv, projlab, seqcase
from .. import specs as S

ID = 'C08'
LEVEL = 'exploration'
RULE = ('cases = generated 2-app histories (clean edit subset, both apps '
        'use labels e1, e2, ...) x a random schedule of 4-8 runs drawn from '
        '{fresh install at any version, upgrade all apps, upgrade one app '
        'only (Evolver.queue_evolve_app), no-op re-run, wipe+mark of a '
        'recorded label, run with an injected failure followed by a retry}. '
        'After every run the model invariants are checked. non-trivial = at '
        'least one evolution was executed and one recorded without being '
        'executed; distinct = hash of (history, schedule).')
ASSUMPTIONS = [
    'SQLite file, one fresh interpreter per run',
    'wipe-evolution / mark-evolution-applied are only used as a consistent '
    'pair on an already recorded label (the commands themselves warn that '
    'anything else desynchronises the log)',
]
FLOORS = {'quick': {'decoy_runs': 10, 
                    'nontrivial': 10, 'runs': 100, 'labels_checked': 100,
                    'wipe_commands': 3, 'mark_commands': 3,
                    'marker_counts_checked': 60,
                    'tail_schedules': 3,
                    'mark_recorded_attempts': 10},
          'thorough': {'decoy_runs': 60, 
                       'nontrivial': 150, 'runs': 1500,
                       'labels_checked': 1500, 'wipe_commands': 40,
                       'mark_commands': 40, 'marker_counts_checked': 800,
                       'tail_schedules': 40,
                       'mark_recorded_attempts': 120}}
SIZES = {'quick': 32, 'thorough': 400}
TIMEOUT = {'quick': 170, 'thorough': 1700}


def eff_seed(seed):
    return seed % 8


def plan(tier, seed):
    es = eff_seed(seed)
    return [{'mode': 'schedule', 'seed': es, 'i': i}
            for i in range(SIZES[tier])]


def worker_setup():
    labenv.setup()


def executed_labels(ev):
    out = []
    for e in ev.get('events', []):
        if e['kind'] == 'signal' and e['name'] == 'applying_evolution':
            out += [tuple(x) for x in e.get('evolutions') or []]
    return out


def run_case(desc):
    rng = seqcase.rng_for('C08', desc['seed'], desc['i'])
    apps = ('app1', 'app2')
    n = rng.randint(2, 3)
    h = histories.gen_history(rng, n, apps=apps)
    # data evolutions: raw SQL leaving one marker row per execution, alone
    # (when the step has no schema edit for the app) or next to schema
    # mutations.  Their executions are counted in the database itself.
    if rng.random() < 0.6:
        # tail: an app loses all its models (DeleteModel evolutions) and in
        # the next version gains a brand-new model together with a data
        # evolution - its stored signature entry is empty in between
        from .. import edits as E
        last = h.specs[-1]
        cands = []
        for a in apps:
            mods = list(last.get(a, {}))
            # (apps are upgraded independently in the schedules: no other
            # app may refer to these models at any version)
            # (and none of the models refers to another one of the app or to
            # itself: deleting such models one by one is a C01 / C15 matter)
            # (a relation that existed at any version would be regrouped
            # behind the DeleteModel when the evolutions are batched,
            # KF-C03-M2-DELETEMODEL-IN-BATCH)
            if mods and not any(
                    E.referrers(sp, a, m) for sp in h.specs
                    for m in sp.get(a, {})):
                cands.append(a)
        if cands:
            a = rng.choice(cands)
            emptied = S.clone(last)
            texts = ['DeleteModel(%r)' % m for m in emptied[a]]
            emptied[a] = {}
            h.specs.append(emptied)
            h.steps.append([])
            h.texts.append({a: texts})
            regained = S.clone(emptied)
            regained[a] = {'Fresh': {'fields': [['v', {'kind': 'Integer'}]],
                                     'meta': {}}}
            h.specs.append(regained)
            h.steps.append([])
            h.texts.append({'__force_data__': a})
    for _x in range(rng.randint(0, 2)):
        # a version that only ships data evolutions (models unchanged)
        pos = rng.randint(1, len(h.specs) - 1)
        h.specs.insert(pos, S.clone(h.specs[pos - 1]))
        h.steps.insert(pos - 1, [])
        h.texts.insert(pos - 1, {'__data__': True})
    n = len(h.specs) - 1
    data_labels, data_only = set(), set()
    count = {a: 0 for a in apps}
    for texts in h.texts:
        for a in apps:
            had = bool(texts.get(a))
            if texts.get('__force_data__') == a or \
                    rng.random() < (0.8 if texts.get('__data__') else 0.4):
                lab = 'e%d' % (count[a] + 1)
                texts.setdefault(a, []).append(
                    'SQLMutation(%r, ["INSERT INTO vmarker (label) VALUES '
                    "('%s:%s')\"], lambda simulation: None)"
                    % ('data_%s_%s' % (a, lab), a, lab))
                data_labels.add((a, lab))
                if not had:
                    data_only.add((a, lab))
            if texts.get(a):
                count[a] += 1
    for texts in h.texts:
        texts.pop('__data__', None)
        texts.pop('__force_data__', None)
    # every third case: the observed database is `other`, next to a
    # fully installed `default` (projlab decoy mode)
    proj = projlab.Project(decoy=desc.get('i', 0) % 3 == 1)
    items, stats = [], {'schedules': 1, 'runs': 0,
                        'data_evolutions': len(data_labels)}
    executed = {}            # (app, label) -> times executed
    recorded_by_run = {}     # (app, label) -> run index that recorded it
    marker_expected = {}     # 'app:label' -> rows the executions must leave
    schedule = []
    cmd_errors = []
    try:
        labels_at = histories.write_project(proj, h, apps)
        # a stale app for the purge step: installed first, then taken out
        proj.write_app('app3', [{'Old': {'fields': [
            ['v', {'kind': 'Integer'}]], 'meta': {}}}], [], nv=[0])
        db = 'db.sqlite3'
        import sqlite3
        con = sqlite3.connect(proj.path(db))
        con.execute('CREATE TABLE vmarker (label varchar(40))')
        con.commit()
        con.close()

        def marker_rows():
            con = sqlite3.connect(proj.path(db))
            try:
                return dict(con.execute(
                    'SELECT label, COUNT(*) FROM vmarker GROUP BY label'))
            finally:
                con.close()
        ver = {a: rng.randint(0, n - 1) for a in apps}   # per-app version
        inst = {'apps': list(apps) + ['app3']}

        def visible(app, v):
            return [(app, 'e%d' % (k + 1)) for k in range(labels_at[app][v])]

        def command(action, a, l):
            """wipe-evolution / mark-evolution-applied on one label; the
            command itself must succeed (else the step observed nothing)."""
            stats['runs'] += 1
            av = dict(ver)
            av['app3'] = 0
            ev = proj.run(action, db=db, app_versions=av, apps=inst['apps'],
                          args={'app': a, 'labels': [l]})
            if ev.get('driver_error') or not ev['outcome']['ok']:
                cmd_errors.append('%s %s.%s: %s' % (
                    action, a, l, str(ev.get('outcome') or ev)[:300]))
                return False
            stats[action + '_commands'] = stats.get(
                action + '_commands', 0) + 1
            return True

        def do_run(kind, apps_sel=None, fault_at=None, action=None,
                   extra_args=None):
            stats['runs'] += 1
            args = dict(extra_args or {})
            if apps_sel:
                args['apps'] = list(apps_sel)
            if fault_at:
                args['fault_at'] = fault_at
            act = action or ('evolve_api' if (apps_sel or fault_at) else
                             rng.choice(['evolve_api', 'evolve_cmd']))
            before_rows = proj.evolution_rows(db)
            before_versions = [r['id'] for r in proj.version_rows(db)]
            av = dict(ver)
            av['app3'] = 0
            ev = proj.run(act, db=db, app_versions=av, args=args,
                          apps=inst['apps'])
            schedule.append({'kind': kind, 'ver': dict(ver),
                             'apps': apps_sel, 'fault_at': fault_at,
                             'action': act})
            ctx = {'run': len(schedule) - 1, 'run_kind': kind}
            if ev.get('driver_error'):
                items.append(dict(ctx, type='DRIVER_ERROR',
                                  detail=str(ev)[:300]))
                return None
            ok = ev['outcome']['ok']
            after_rows = proj.evolution_rows(db)
            after_versions = [r['id'] for r in proj.version_rows(db)]
            new_rows = list(after_rows)
            for r in before_rows:
                if r in new_rows:
                    new_rows.remove(r)
            ex = executed_labels(ev)
            stats['labels_executed'] = stats.get('labels_executed', 0) + \
                len(ex)
            for lab in ex:
                if lab in recorded_by_run:
                    items.append(dict(ctx, type='RECORDED_LABEL_EXECUTED',
                                      label=list(lab),
                                      how=str(recorded_by_run[lab])))
                if ok and lab in data_labels:
                    mk = '%s:%s' % lab
                    marker_expected[mk] = marker_expected.get(mk, 0) + 1
                if ok or fault_at is None:
                    executed[lab] = executed.get(lab, 0) + 1
                    if executed[lab] > 1:
                        items.append(dict(ctx, type='EXECUTED_TWICE',
                                          label=list(lab)))
            if ok:
                # the database's own count of executions
                got = marker_rows()
                stats['marker_counts_checked'] = stats.get(
                    'marker_counts_checked', 0) + 1
                if got != marker_expected:
                    items.append(dict(ctx, type='MARKER_ROWS_DIFFER',
                                      expected=dict(marker_expected),
                                      got=got))
            if not ok:
                if fault_at is None:
                    items.append(dict(ctx, type='RUN_FAILED',
                                      exc=ev['outcome']['exc'],
                                      site=ev['outcome'].get('site'),
                                      msg=ev['outcome'].get('msg', '')[:200]))
                if new_rows:
                    items.append(dict(ctx, type='FAILED_RUN_RECORDED',
                                      labels=[list(r[:2]) for r in new_rows]))
                return ev
            # rows created by this run carry this run's version
            new_versions = [v for v in after_versions
                            if v not in before_versions]
            for a, l, vid in new_rows:
                stats['labels_checked'] = stats.get('labels_checked', 0) + 1
                if (a, l) in data_labels and (a, l) not in ex and \
                        (a, l) not in recorded_by_run and a in apps and \
                        kind != 'fresh' and \
                        int(l[1:]) > installed_n.get(a, 10 ** 6):
                    # a data evolution that became visible after the app was
                    # installed is recorded for the first time by a run that
                    # did not execute it
                    items.append(dict(
                        ctx, type='RECORDED_WITHOUT_EXECUTION', label=[a, l],
                        # evidence: did the app have a stored signature
                        # entry to begin with (an app installed without any
                        # model has none and is taken for new on every run)
                        no_models_at_install=not h.app_models(
                            a, installed_v[a]),
                        no_models_before_run=not h.app_models(
                            a, getattr(do_run, 'prev_ver', installed_v)[a])))
                if (a, l) in recorded_by_run and a in apps:
                    items.append(dict(ctx, type='RECORDED_TWICE',
                                      label=[a, l],
                                      app_emptied=any(
                                          not h.app_models(a, v)
                                          for v in range(n + 1))))
                recorded_by_run[(a, l)] = len(schedule) - 1
                if new_versions and vid not in new_versions:
                    items.append(dict(ctx, type='WRONG_VERSION_ATTACHED',
                                      label=[a, l], version=vid,
                                      new_versions=new_versions))
                if not new_versions:
                    # a run that records evolutions saves a version of its
                    # own for them to be attached to
                    items.append(dict(ctx, type='WRONG_VERSION_ATTACHED',
                                      label=[a, l], version=vid,
                                      new_versions=new_versions,
                                      no_version_saved=True))
            # completeness for the apps this run evolved
            for a in (apps_sel or apps):
                have = [(x, l) for x, l, _v in after_rows if x == a]
                for lab in visible(a, ver[a]):
                    c = have.count(lab)
                    if c != 1:
                        start_same = None
                        items.append(dict(
                            ctx, type='LABEL_NOT_RECORDED_ONCE',
                            label=list(lab), count=c,
                            executed_now=lab in ex,
                            app_emptied=any(not h.app_models(a, v)
                                            for v in range(n + 1)),
                            models_unchanged=getattr(
                                do_run, 'prev_models', {}).get(a) ==
                            S.canon(h.app_models(a, ver[a]))))
            do_run.prev_ver = dict(ver)
            do_run.prev_models = {a: S.canon(h.app_models(a, ver[a]))
                                  for a in apps}
            return ev

        # ---- the schedule
        installed_n = {a: labels_at[a][ver[a]] for a in apps}
        installed_v = dict(ver)
        ev = do_run('fresh')
        inst['apps'] = list(apps) if rng.random() < 0.5 else inst['apps']
        fresh_ex = executed_labels(ev) if ev else []
        if fresh_ex:
            items.append({'type': 'FRESH_INSTALL_EXECUTED', 'run': 0,
                          'labels': [list(x) for x in fresh_ex]})
        steps = rng.randint(3, 7)
        late_fault = rng.random() < 0.4
        cap = {a: n for a in apps}
        if late_fault:
            cap[rng.choice(apps)] = n - 1
        # an app that loses all its models and regains one later (tail):
        # the random steps stay below the emptied version, then one run
        # goes to the emptied version and another one beyond it
        tail = None
        for a in apps:
            t1 = [v for v in range(1, n + 1) if not h.app_models(a, v) and
                  h.app_models(a, v - 1)]
            if t1:
                t2 = [v for v in range(t1[0] + 1, n + 1)
                      if h.app_models(a, v)]
                if t2 and ver[a] < t1[0] and h.app_models(a, ver[a]):
                    tail = (a, t1[0], t2[0])
                    cap[a] = min(cap[a], t1[0] - 1)
                    break
        for _ in range(steps):
            choices = ['noop']
            if any(ver[a] < cap[a] for a in apps):
                choices += ['upgrade_all'] * 3 + ['upgrade_one'] * 2 + \
                    ['fault_retry']
            if [l for l in recorded_by_run if l[0] in apps]:
                choices.append('wipe_mark')
            # hand-marking a pending data-only evolution that is not the
            # next one in the sequence (log no longer a prefix of SEQUENCE)
            ahead = []
            for a in apps:
                for v2 in range(ver[a] + 1, cap[a] + 1):
                    lo, hi = labels_at[a][ver[a]], labels_at[a][v2]
                    for j in range(lo + 2, hi + 1):
                        lab = (a, 'e%d' % j)
                        if lab in data_only and lab not in recorded_by_run:
                            ahead.append((a, v2, lab))
            now = [(x, y) for x, y, _v in proj.evolution_rows(db)]
            ahead = [t for t in ahead if now.count(t[2]) == 0]
            wipable = sorted(l for l in recorded_by_run
                             if l in data_only and l[0] in apps and
                             now.count(l) == 1)
            if ahead:
                choices += ['mark_ahead'] * 6
            # marking a label that is already recorded (by this or an older
            # version) must be refused and leave the log as it is
            remark = sorted(l for l in recorded_by_run
                            if l[0] in apps and now.count(l) == 1)
            if remark:
                choices += ['mark_recorded'] * 2
            if wipable:
                choices.append('wipe_only')
            kind = rng.choice(choices)
            if kind == 'mark_recorded':
                a, l = rng.choice(remark)
                stats['runs'] += 1
                av = dict(ver)
                av['app3'] = 0
                evm = proj.run('mark', db=db, app_versions=av,
                               apps=inst['apps'],
                               args={'app': a, 'labels': [l]})
                schedule.append({'kind': 'mark_recorded', 'label': [a, l]})
                stats['mark_recorded_attempts'] = stats.get(
                    'mark_recorded_attempts', 0) + 1
                rows = [(x, y) for x, y, _v in proj.evolution_rows(db)]
                if rows.count((a, l)) != 1 or (
                        not evm.get('driver_error') and
                        evm['outcome']['ok']):
                    items.append({'type': 'RECORDED_LABEL_MARKED_AGAIN',
                                  'label': [a, l],
                                  'count': rows.count((a, l)),
                                  'command_ok': bool(
                                      not evm.get('driver_error') and
                                      evm['outcome']['ok'])})
                continue
            if kind == 'mark_ahead':
                a, v2, lab = rng.choice(ahead)
                ver[a] = v2
                command('mark', a, lab[1])
                schedule.append({'kind': 'mark_ahead', 'label': list(lab)})
                rows = [(x, y) for x, y, _v in proj.evolution_rows(db)]
                if rows.count(lab) != 1:
                    items.append({'type': 'MARK_COUNT', 'label': list(lab),
                                  'count': rows.count(lab)})
                else:
                    recorded_by_run[lab] = 'marked'
                    stats['marked_ahead'] = stats.get('marked_ahead', 0) + 1
                do_run('upgrade_after_mark')
                continue
            if kind == 'wipe_only':
                # un-recording a data evolution makes it pending again
                a, l = rng.choice(wipable)
                command('wipe', a, l)
                schedule.append({'kind': 'wipe_only', 'label': [a, l]})
                rows = [(x, y) for x, y, _v in proj.evolution_rows(db)]
                if rows.count((a, l)) != 0:
                    items.append({'type': 'WIPE_COUNT', 'label': [a, l],
                                  'count': rows.count((a, l))})
                else:
                    recorded_by_run.pop((a, l), None)
                    executed.pop((a, l), None)
                    stats['wiped'] = stats.get('wiped', 0) + 1
                do_run('upgrade_after_wipe', action='evolve_api')
                continue
            if kind == 'noop':
                do_run('noop')
            elif kind == 'upgrade_all':
                for a in apps:
                    ver[a] = min(cap[a], ver[a] + rng.randint(0, 2))
                do_run('upgrade_all')
            elif kind == 'upgrade_one':
                a = rng.choice([x for x in apps if ver[x] < cap[x]])
                ver[a] = min(cap[a], ver[a] + rng.randint(1, 2))
                do_run('upgrade_one', apps_sel=[a])
            elif kind == 'fault_retry':
                for a in apps:
                    ver[a] = min(cap[a], ver[a] + 1)
                # k=1: nothing of the run is committed yet (later crash
                # points and KF-C07-EARLIER-BATCHES-COMMITTED are C07's)
                do_run('fault', fault_at=1)
                do_run('retry')
            elif kind == 'wipe_mark':
                a, l = rng.choice(sorted(
                    x for x in recorded_by_run if x[0] in apps))
                now = [(x, y) for x, y, _v in proj.evolution_rows(db)]
                if now.count((a, l)) == 1:
                    command('wipe', a, l)
                    command('mark', a, l)
                    schedule.append({'kind': 'wipe_mark', 'label': [a, l]})
                    rows = [(x, y) for x, y, _v in proj.evolution_rows(db)]
                    if rows.count((a, l)) != 1:
                        items.append({'type': 'WIPE_MARK_COUNT',
                                      'label': [a, l],
                                      'count': rows.count((a, l))})
        if tail:
            a, t1, t2 = tail
            stats['tail_schedules'] = 1
            ver[a] = t1
            do_run('upgrade_to_emptied')
            ver[a] = rng.randint(t2, n)
            cap[a] = n
            do_run('upgrade_to_regained')
        # ---- last step (sometimes): a run whose *last* task fails.  The
        # stale app is purged in the same run as pending evolutions and the
        # DROP of its table fails: nothing of that run may be recorded.
        # (No retry: what the earlier, committed tasks left behind is C07's
        # matter, KF-C07-EARLIER-BATCHES-COMMITTED.)
        if late_fault and any(ver[a] < n for a in apps):
            for a in apps:
                ver[a] = min(n, ver[a] + rng.randint(1, 2))
            inst['apps'] = list(apps)
            stats['late_fault_runs'] = 1
            ev = do_run('late_fault', fault_at=1, extra_args={
                'purge': True, 'force': True, 'no_facts_before': True,
                'fault_re': r'DROP TABLE "app3_old"'})
            if ev is not None and not ev.get('fault_fired'):
                stats['late_fault_not_fired'] = 1
    finally:
        stats['decoy_runs'] = proj.decoy_runs
        proj.cleanup()
    nontrivial = bool(executed) and bool(
        set(recorded_by_run) - set(executed))
    return {'key': S.canon([h.specs, schedule]), 'nontrivial': nontrivial,
            'items': items, 'stats': stats,
            'harness_error': '; '.join(cmd_errors)[:600] or None,
            'case': {'steps': h.steps, 'schedule': schedule,
                     'labels_at': labels_at}}
