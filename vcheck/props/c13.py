"""C13 - hinted evolution text is loadable and means what the hint meant.

Differential monitoring of the real renderer and the real loader: mutations
are rendered with EvolveAppTask.get_evolution_content() (and str(mutation)),
the text is exec()'d as an evolution module, and the loaded mutations are
compared with the originals by effect: same simulated signature change and
the same SQL from AppMutator.to_sql() on the same database.  Placeholders
for values that need user input must refuse to load/run.
"""
import types

from .. import edits as E, labenv, seqcase, siglab
from .. import specs as S
from . import c05

ID = 'C13'
LEVEL = 'exploration'
RULE = ('cases = (a) the hinted mutation lists Diff.evolution() produces '
        'over the C05 pair space, per app; (b) directly constructed mutation '
        'lists on a fixed 2-model schema with attribute values drawn from '
        'str (quotes, backslashes, unicode), int, bool, None, lists/tuples, '
        'field classes, Q trees (AND/OR/XOR, negation, single-child '
        'nesting), F, Value, combined expressions, Deferrable. Each list is '
        'rendered by the real get_evolution_content(), exec()d, and original '
        'vs loaded are compared by simulated signature and generated SQL. '
        'non-trivial = the list holds at least one mutation with a '
        'non-string parameter; distinct = hash of the rendered text.')
ASSUMPTIONS = [
    'the evolution module is loaded with exec() in a fresh namespace, as '
    'Python would import the written file',
    'SQL is compared as the list of statements + parameters produced by '
    'AppMutator.to_sql() against the same start database (callables are '
    'invoked)',
]
FLOORS = {'quick': {'nontrivial': 200, 'texts_loaded': 250},
          'thorough': {'nontrivial': 4000, 'texts_loaded': 5000}}
SIZES = {'quick': (500, 500), 'thorough': (9000, 9000)}

BASE = {'app1': {
    'A': {'fields': [['a', {'kind': 'Integer'}],
                     ['b', {'kind': 'Char', 'max_length': 20, 'null': True}],
                     ['c', {'kind': 'Integer', 'null': True}],
                     ['d', {'kind': 'Integer', 'db_index': True}],
                     ['fk', {'kind': 'ForeignKey', 'to': 'app1.B',
                             'null': True}]],
          'meta': {}},
    'B': {'fields': [['a', {'kind': 'Integer'}]], 'meta': {}},
}}


def eff_seed(seed):
    return seed % 8


def plan(tier, seed):
    es = eff_seed(seed)
    nh, nd = SIZES[tier]
    return [{'mode': 'hint', 'seed': es, 'i': i} for i in range(nh)] + \
        [{'mode': 'direct', 'seed': es, 'i': i} for i in range(nd)]


def worker_setup():
    labenv.setup()


def gen_direct(rng):
    """One or more mutations valid on BASE, with hostile attribute values."""
    from django.db import models
    from django.db.models import Deferrable
    from django_evolution import mutations as M
    from .c06 import gen_q, gen_expression, STRS
    feats = set()
    out = []
    kind = rng.choice(['add', 'add', 'change', 'change', 'meta_indexes',
                       'meta_constraints', 'meta_together', 'rename',
                       'rename_model', 'delete', 'delete_model', 'type',
                       'sql', 'move', 'custom', 'custom', 'rename_app'])
    if kind == 'add':
        ft = rng.choice([models.CharField, models.IntegerField,
                         models.BooleanField, models.DecimalField,
                         models.DateTimeField, models.TextField,
                         models.ForeignKey, models.ManyToManyField])
        kw = {}
        if ft is models.CharField:
            kw['max_length'] = rng.choice([5, 255])
        if ft is models.DecimalField:
            kw.update(max_digits=8, decimal_places=2)
        if ft in (models.ForeignKey, models.ManyToManyField):
            kw['related_model'] = 'app1.B'
            if ft is models.ForeignKey:
                kw['null'] = True
        else:
            r0 = rng.random()
            if r0 < 0.35:
                kw['null'] = True
            if r0 >= 0.2:
                ini = {models.CharField: rng.choice(STRS)[:5],
                       models.TextField: rng.choice(STRS),
                       models.IntegerField: rng.choice([0, -1, 7]),
                       models.BooleanField: rng.choice([True, False]),
                       models.DecimalField: rng.choice([0, 1]),
                       models.DateTimeField: '2020-01-02 03:04:05'}[ft]
                kw['initial'] = ini
                feats.add('initial_' + type(ini).__name__)
        if rng.random() < 0.3 and ft is not models.ManyToManyField:
            kw['db_column'] = rng.choice(['cöl', "c'l", 'c"l', 'col\\x'])
            feats.add('str_attr')
        if rng.random() < 0.2:
            kw['db_index'] = True
        out.append(M.AddField('A', 'z', ft, **kw))
        feats.add('field_class')
    elif kind == 'change':
        attrs = rng.choice([{'null': False, 'initial': rng.choice(
            [0, 5, 'x', "it's"])}, {'max_length': 50}, {'db_index': True},
            {'unique': True}, {'db_column': rng.choice(['k', "k'", 'ü'])},
            {'null': True}])
        target = {'null': 'c', 'max_length': 'b', 'db_index': 'a',
                  'unique': 'a', 'db_column': 'a'}[
            [k for k in attrs if k != 'initial'][0]]
        if attrs.get('null') is True:
            target = 'a'
        out.append(M.ChangeField('A', target, **attrs))
        feats.add('change_attrs')
    elif kind == 'type':
        out.append(M.ChangeField('A', 'a', field_type=models.BigIntegerField))
        feats.add('field_class')
    elif kind == 'meta_indexes':
        v = []
        for i in range(rng.randint(1, 2)):
            d = {'name': 'ix%d' % i}
            if rng.random() < 0.3:
                d['expressions'] = [gen_expression(rng)]
                feats.add('expressions')
            else:
                d['fields'] = rng.choice([['a'], ['-a', 'd'], ('a', 'c')])
            if rng.random() < 0.5:
                d['condition'] = gen_q_base(rng)
                feats.add('q')
            v.append(d)
        out.append(M.ChangeMeta('A', 'indexes', v))
    elif kind == 'meta_constraints':
        v = []
        for i in range(rng.randint(1, 2)):
            if rng.random() < 0.6:
                v.append({'type': models.CheckConstraint, 'name': 'ck%d' % i,
                          'check': gen_q_base(rng)})
                feats.add('q')
            else:
                d = {'type': models.UniqueConstraint, 'name': 'uq%d' % i,
                     'fields': rng.choice([('a', 'c'), ['a', 'd']])}
                if rng.random() < 0.4:
                    d['condition'] = gen_q_base(rng)
                    feats.add('q')
                if rng.random() < 0.3:
                    d['deferrable'] = rng.choice([Deferrable.DEFERRED,
                                                  Deferrable.IMMEDIATE])
                    feats.add('enum')
                v.append(d)
        out.append(M.ChangeMeta('A', 'constraints', v))
    elif kind == 'meta_together':
        out.append(M.ChangeMeta('A', rng.choice(['unique_together',
                                                 'index_together']),
                                rng.choice([[('a', 'c')], [['a', 'd'],
                                                            ['c', 'd']]])))
        feats.add('tuples')
    elif kind == 'rename':
        kw = {}
        # (a relation's default column is <name>_id: a db_column equal to
        # the new field name is not redundant there)
        old_name, new_name = rng.choice([('c', 'cc'), ('fk', 'fk2')])
        if rng.random() < 0.6:
            kw['db_column'] = rng.choice(['x', "x'y", 'ü', new_name,
                                          new_name])
        out.append(M.RenameField('A', old_name, new_name, **kw))
    elif kind == 'rename_model':
        out.append(M.RenameModel('B', 'Bb', db_table=rng.choice(
            ['app1_bb', 'app1_b', "t'x"])))
    elif kind == 'delete':
        out.append(M.DeleteField('A', rng.choice(['b', 'c', 'd'])))
    elif kind == 'delete_model':
        out.append(M.DeleteField('A', 'fk'))
        out.append(M.DeleteModel('B'))
    elif kind == 'sql':
        out.append(M.DeleteField('A', 'c'))
    elif kind == 'custom':
        # field classes that are not in django.db.models have to be imported
        # by the rendered text (two of them live in the same module)
        from ..customfields import CodeField, TagField
        which = rng.choice(['add', 'add2', 'change', 'both'])
        if which in ('add', 'add2', 'both'):
            out.append(M.AddField('A', 'z', TagField, max_length=10,
                                  null=True))
        if which in ('add2', 'both'):
            out.append(M.AddField('A', 'z2', CodeField, max_length=12,
                                  null=True))
        if which in ('change', 'both'):
            out.append(M.ChangeField('A', 'b', field_type=rng.choice(
                [TagField, CodeField]), max_length=20, null=True))
        feats.add('custom_field_' + which)
    elif kind == 'rename_app':
        out.append(M.RenameAppLabel('app1', 'app9', legacy_app_label='app1',
                                    model_names=rng.choice([['A'], ['A'],
                                                            []])))
        feats.add('rename_app')
    elif kind == 'move':
        out.append(M.MoveToDjangoMigrations(mark_applied=rng.choice(
            [['0001_initial'], ['0001_initial', '0002_x']])))
        feats.add('move')
    if rng.random() < 0.3 and kind not in ('delete_model', 'move',
                                             'rename_app'):
        out.append(M.AddField('B', 'y', models.IntegerField, null=True))
    return out, sorted(feats)


def gen_arith(rng, depth=0):
    """Combined expressions over the integer columns, nested on either
    side (grouping matters: (a + c) * d, a - (c - d))."""
    from django.db.models import F, Value
    if depth >= 2 or rng.random() < 0.3:
        return rng.choice([F('a'), F('c'), F('d'), Value(2), Value(7)])
    left = gen_arith(rng, depth + 1)
    right = gen_arith(rng, depth + 1)
    op = rng.choice(['+', '-', '*', '+', '-', '*', '/', '%', '&', '**'])
    if op == '+':
        return left + right
    if op == '-':
        return left - right
    if op == '/':
        return left / right
    if op == '%':
        return left % right
    if op == '&':
        return left.bitand(right)
    if op == '**':
        return left ** right
    return left * right


def gen_q_base(rng, depth=0):
    """Q trees over the integer columns of BASE.A (so the SQL can be built)."""
    from django.db.models import F, Q, Value
    r = rng.random()
    if depth >= 3 or r < 0.35:
        lookup = rng.choice(['a__gt', 'a__gte', 'c__lt', 'd', 'c__isnull',
                             'd__in'])
        if lookup == 'd__in':
            val = rng.choice([[1, 2], (1, 2)])
        elif lookup == 'c__isnull':
            val = rng.choice([True, False])
        else:
            val = rng.choice([0, 1, -5, F('d'), Value(3), None, None])
            if val is None:
                val = gen_arith(rng)
        q = Q(**{lookup: val})
    elif r < 0.55:
        q = gen_q_base(rng, depth + 1) & gen_q_base(rng, depth + 1)
    elif r < 0.75:
        q = gen_q_base(rng, depth + 1) | gen_q_base(rng, depth + 1)
    elif r < 0.87:
        q = gen_q_base(rng, depth + 1) ^ gen_q_base(rng, depth + 1)
    else:
        q = Q(gen_q_base(rng, depth + 1))
    if rng.random() < 0.25:
        q = ~q
    return q


def q_features(text):
    f = set()
    if ' ^ ' in text or 'XOR' in text:
        f.add('q_xor')
    if '~' in text:
        f.add('q_negated')
    return f


def render(mutations, app_name='app1'):
    """The real renderer on a stub task."""
    from django_evolution.evolve import EvolveAppTask
    stub = types.SimpleNamespace(
        _mutations=list(mutations),
        app=types.SimpleNamespace(__name__=app_name + '.models'))
    return EvolveAppTask.get_evolution_content(stub)


def load(text):
    ns = {}
    exec(compile(text, '<evolution>', 'exec'), ns)
    return ns['MUTATIONS']


def sql_of(lab, app, psig, mutations):
    """Statements + params from the real AppMutator.to_sql() (not executed)."""
    from django_evolution.db.state import DatabaseState
    from django_evolution.mutators import AppMutator
    am = AppMutator(app_label=app, project_sig=psig.clone(),
                    database_state=DatabaseState(lab.alias, scan=True),
                    database=lab.alias)
    am.run_mutations(mutations)
    out = []

    def flat(sql):
        for s in sql:
            if callable(s):
                out.append('<callable>')
            elif isinstance(s, tuple):
                out.append([s[0], [repr(p() if callable(p) else p)
                                   for p in s[1]]])
            elif isinstance(s, (list,)):
                flat(s)
            elif hasattr(s, 'sql'):
                flat(s.sql)
            else:
                out.append(str(s))
    flat(am.to_sql())
    return out, am.project_sig


def run_case(desc):
    from django_evolution.placeholders import BasePlaceholder
    rng = seqcase.rng_for('C13', desc['mode'], desc['seed'], desc['i'])
    items, stats = [], {'mode_' + desc['mode']: 1}
    case = {}
    lab = siglab.Lab('default')
    if desc['mode'] == 'hint':
        from django_evolution.diff import Diff
        old, new, kinds = c05.gen_pair(rng)
        lab.start(old)
        osig = lab.psig
        ncls = S.build_models(new)
        nsig = S.project_sig(ncls, apps_order=list(new))
        try:
            hinted = Diff(osig, nsig).evolution()
        except Exception:
            hinted = {}
        groups = [(app, muts) for app, muts in hinted.items() if muts]
        feats = set(k.split(':')[0] for k in kinds)
        case['kinds'] = kinds
    else:
        lab.start(BASE)
        osig = lab.psig
        muts, feats = gen_direct(rng)
        feats = set(feats)
        groups = [('app1', muts)]
    texts = []
    for app, muts in groups:
        has_placeholder = any(isinstance(getattr(m, 'initial', None),
                                         BasePlaceholder) for m in muts)
        try:
            text = render(muts, app)
        except Exception as e:
            items.append(siglab.exc_item('RENDER_ERROR', e))
            stats['render_errors'] = stats.get('render_errors', 0) + 1
            continue
        texts.append(text)
        feats |= q_features(text)
        stats['texts_rendered'] = stats.get('texts_rendered', 0) + 1
        try:
            loaded = load(text)
        except Exception as e:
            if has_placeholder and isinstance(e, SyntaxError) and \
                    '<<USER VALUE REQUIRED>>' in text:
                stats['placeholders_refused'] = stats.get(
                    'placeholders_refused', 0) + 1
                continue
            it = siglab.exc_item('LOAD_ERROR', e)
            it['site'] = type(e).__name__
            it['needs_models'] = 'models.' in text and \
                'from django.db import models' not in text
            items.append(it)
            continue
        stats['texts_loaded'] = stats.get('texts_loaded', 0) + 1
        if has_placeholder:
            items.append({'type': 'PLACEHOLDER_LOADS'})
            continue
        if len(loaded) != len(muts):
            items.append({'type': 'LOADED_COUNT', 'n': len(loaded)})
            continue
        for a, b in zip(muts, loaded):
            if str(a) != str(b):
                items.append({'type': 'RERENDER_DIFF',
                              'mutation': type(a).__name__,
                              'orig': str(a)[:200], 'loaded': str(b)[:200]})
        # effect: signature
        s1, s2 = osig.clone(), osig.clone()
        e1 = e2 = None
        for m in muts:
            e1 = e1 or siglab.simulate_one(s1, app, m)
        for m in loaded:
            e2 = e2 or siglab.simulate_one(s2, app, m)
        if bool(e1) != bool(e2):
            items.append({'type': 'SIM_OUTCOME_DIFF',
                          'orig': e1 and e1['msg'], 'loaded': e2 and e2['msg']})
        elif not e1:
            stats['effects_compared'] = stats.get('effects_compared', 0) + 1
            _eq, d1, d2, t1, t2 = siglab.sig_equal(s1, s2)
            sig_item = None
            um1 = [(a.app_id, a.upgrade_method, sorted(
                a.applied_migrations or [])) for a in s1.app_sigs]
            um2 = [(a.app_id, a.upgrade_method, sorted(
                a.applied_migrations or [])) for a in s2.app_sigs]
            if um1 != um2:
                items.append({'type': 'SIG_EFFECT_DIFF', 'sql_same': None,
                              'diff': 'upgrade method / applied migrations: '
                                      '%r vs %r' % (um1, um2),
                              'what': 'applied_migrations'})
            if not (d1 and d2):
                sig_item = {'type': 'SIG_EFFECT_DIFF',
                            'diff': (t1 or t2)[:300], 'sql_same': None}
                items.append(sig_item)
            # effect: SQL
            try:
                q1, _ = sql_of(lab, app, osig, muts)
                err1 = None
            except Exception as e:
                q1, err1 = None, siglab.exc_item('SQL_ERR', e)
            try:
                q2, _ = sql_of(lab, app, osig, loaded)
                err2 = None
            except Exception as e:
                q2, err2 = None, siglab.exc_item('SQL_ERR', e)
            if (err1 is None) != (err2 is None):
                items.append({'type': 'SQL_OUTCOME_DIFF',
                              'orig': err1 and err1['msg'],
                              'loaded': err2 and err2['msg']})
            elif err1 is None:
                stats['sql_compared'] = stats.get('sql_compared', 0) + 1
                if sig_item is not None:
                    sig_item['sql_same'] = (q1 == q2)
                if q1 != q2:
                    k = 0
                    while k < min(len(q1), len(q2)) and q1[k] == q2[k]:
                        k += 1
                    items.append({'type': 'SQL_EFFECT_DIFF',
                                  'orig': str(q1[k:k + 1])[:200],
                                  'loaded': str(q2[k:k + 1])[:200]})
    for f in feats:
        stats['feat_' + f] = 1
    for it in items:
        it['features'] = sorted(feats)
    case['texts'] = [t[:1200] for t in texts]
    nontrivial = any(('models.' in t or '[' in t.split('MUTATIONS = [', 1)[-1]
                      [1:] or '=' in t.split('MUTATIONS', 1)[-1])
                     for t in texts)
    return {'key': S.canon(texts) if texts else S.canon(desc),
            'nontrivial': bool(nontrivial), 'items': items, 'stats': stats,
            'case': case}
