"""C15 - purging and deleting remove exactly what was named, nothing else.

History + reference ownership model: the harness knows from the spec it
generated which tables every app / model owns (model tables + automatically
created many-to-many tables).  After `evolve --purge`, an Evolver purge, or an
evolution holding DeleteModel, the dropped tables must be exactly the owned
tables of the named unit, its signature entries must be gone, and every other
table (sqlite_master.sql + rows) and every other app's stored signature entry
must be byte-identical.  Without a purge request nothing of a removed app may
disappear.
"""
import json

from .. import edits as E, labenv, projlab, seqcase
from .. import specs as S

ID = 'C15'
LEVEL = 'exploration'
RULE = ('cases = generated projects of 2-4 apps (1-2 models each, FK and '
        'M2M incl. cross-app where the referrer is the removed side, custom '
        'db_table names that are prefixes of each other across apps) with '
        'rows; a random non-empty subset of removable apps is taken out of '
        'INSTALLED_APPS and the database is evolved {without purge, '
        '`evolve --purge`, Evolver.queue_purge_old_apps()}; or one model is '
        'removed by a DeleteModel evolution. non-trivial = the removed unit '
        'owns at least one table and another app keeps at least one; '
        'distinct = hash of (spec, removed, mode).')
ASSUMPTIONS = [
    'SQLite file; only apps that no remaining app refers to are removed '
    '(Django could not load the remaining models otherwise)',
]
FLOORS = {'quick': {'second_purge_of_process': 2, 'decoy_runs': 10, 
                    'nontrivial': 20, 'tables_compared': 100,
                    'stale_referrer_cases': 4, 'partial_purges': 1},
          'thorough': {'second_purge_of_process': 15, 'decoy_runs': 60, 
                       'nontrivial': 300, 'tables_compared': 1500,
                       'stale_referrer_cases': 50, 'partial_purges': 10}}
SIZES = {'quick': 64, 'thorough': 600}
TIMEOUT = {'quick': 170, 'thorough': 1700}
APPS = ('app1', 'app2', 'app3', 'app4')
TABLE_POOL = ['shared_t', 'shared_t_x', 'shared', 'app1_a', 'app1_a_b',
              'app2_a', 't']


def eff_seed(seed):
    return seed % 8


def plan(tier, seed):
    es = eff_seed(seed)
    return [{'mode': 'project', 'seed': es, 'i': i}
            for i in range(SIZES[tier])]


def worker_setup():
    labenv.setup()


def gen_project(rng):
    napps = rng.randint(2, 4)
    apps = list(APPS[:napps])
    spec = {a: {} for a in apps}
    used_tables = set()
    names = ['A', 'AA', 'A_b', 'B']
    for ai, app in enumerate(apps):
        for mname in rng.sample(names, rng.randint(1, 2)):
            meta = {}
            if rng.random() < 0.4:
                t = rng.choice(TABLE_POOL)
                if t not in used_tables:
                    meta['db_table'] = t
            fields = [['v', {'kind': 'Integer'}]]
            # relations only point "backwards" (to earlier apps or own app),
            # so later apps can be removed without breaking earlier ones
            targets = ['%s.%s' % (a2, m2) for a2 in apps[:ai + 1]
                       for m2 in spec[a2]]
            if targets and rng.random() < 0.6:
                fields.append(['fk', {'kind': 'ForeignKey', 'null': True,
                                      'to': rng.choice(targets)}])
            if targets and rng.random() < 0.5:
                fields.append(['mm', {'kind': 'ManyToMany',
                                      'to': rng.choice(targets)}])
            if rng.random() < 0.3:
                fields.append(['self_mm', {'kind': 'ManyToMany',
                                           'to': '%s.%s' % (app, mname)}])
            for _n, fd in fields:
                # a ManyToManyField subclass owns its table just the same
                if fd['kind'] == 'ManyToMany' and rng.random() < 0.4:
                    fd['subclass'] = True
            spec[app][mname] = {'fields': fields, 'meta': meta}
            used_tables.update(S.owned_tables(spec, app, mname))
    # table names must be unique
    allt = [t for a in apps for m in spec[a]
            for t in S.owned_tables(spec, a, m)]
    if len(allt) != len(set(allt)):
        return gen_project(rng)
    return apps, spec


def removable(spec, apps, subset):
    """No remaining app may refer to a removed one."""
    for a, mods in spec.items():
        if a in subset:
            continue
        for ms in mods.values():
            for _n, fd in ms['fields']:
                if fd.get('to') and fd['to'].split('.')[0] in subset:
                    return False
    return True


def table_state(proj, db):
    snap = proj.snapshot(db)
    return {t: {'sql': e['sql'], 'rows': e['rows'],
                'indexes': sorted(i['name'] for i in e['indexes'])}
            for t, e in snap.items()}


def stored_apps(proj, db):
    """{app_id: serialized signature entry text} of the latest Version."""
    rows = proj.version_rows(db)
    if not rows:
        return {}
    text = sorted(rows, key=lambda r: r['id'])[-1]['signature']
    if not text.startswith('json!'):
        return {}
    d = json.loads(text[5:])
    return {a: json.dumps(v, sort_keys=True)
            for a, v in d.get('apps', {}).items()}


def run_case(desc):
    rng = seqcase.rng_for('C15', desc['seed'], desc['i'])
    apps, spec = gen_project(rng)
    mode = rng.choice(['no_purge', 'purge_cmd', 'purge_api', 'delete_model',
                       'delete_model_stale_ref'])
    stale = None
    if mode == 'delete_model_stale_ref':
        # a model that only models of other apps refer to; those apps are
        # taken out of INSTALLED_APPS (not purged) in the run that deletes it
        found = []
        for a in apps:
            for m in spec[a]:
                refs = [r for r in E.referrers(spec, a, m)
                        if (r[0], r[1]) != (a, m)]
                sapps = set(r[0] for r in refs)
                if refs and a not in sapps and removable(spec, apps, sapps):
                    found.append((a, m, sorted(sapps)))
        if found:
            stale = rng.choice(found)
        mode = 'delete_model'
    items, stats = [], {'projects': 1, 'mode_' + mode: 1}
    # every third case: the observed database is `other`, next to a
    # fully installed `default` (projlab decoy mode)
    proj = projlab.Project(decoy=desc.get('i', 0) % 3 == 1)
    case = {'spec': spec, 'mode': mode}
    nontrivial = False
    try:
        db = 'db.sqlite3'
        if mode == 'delete_model':
            # V1 drops one model that nobody refers to
            cands = [(a, m) for a in apps for m in spec[a]
                     if not [r for r in E.referrers(spec, a, m)
                             if (r[0], r[1]) != (a, m)]]
            if not cands and not stale:
                mode = 'purge_api'
                stats['mode_purge_api'] = 1
        if mode == 'delete_model':
            if stale:
                a, m = stale[0], stale[1]
                stats['stale_referrer_cases'] = 1
            else:
                a, m = rng.choice(cands)
            spec1 = S.clone(spec)
            del spec1[a][m]
            for app in apps:
                evo = [('e1', ["DeleteModel(%r)" % m], {})] if app == a \
                    else []
                proj.write_app(app, [spec[app], spec1[app]], evo,
                               nv=[0, len(evo)])
            removed_tables = set(S.owned_tables(spec, a, m))
            removed_sig = {a}
            case['deleted'] = [a, m]
            keep_apps = list(apps)
            if stale:
                keep_apps = [x for x in apps if x not in stale[2]]
                case['stale_apps'] = stale[2]
        else:
            for app in apps:
                proj.write_app(app, [spec[app]], [], nv=[0])
            later = [a for a in apps[1:]]
            subset = None
            for _t in range(10):
                k = rng.randint(1, max(1, len(later)))
                if _t < 5 and len(later) >= 2 and mode != 'no_purge':
                    k = rng.randint(2, len(later))   # several apps at once
                cand = set(rng.sample(later, min(k, len(later))))
                if cand and removable(spec, apps, cand):
                    subset = cand
                    break
            if not subset:
                return {'key': S.canon(desc), 'nontrivial': False,
                        'items': [], 'stats': {'skipped_not_removable': 1},
                        'case': None}
            removed_tables = set(t for a in subset for m in spec[a]
                                 for t in S.owned_tables(spec, a, m))
            removed_sig = set(subset)
            keep_apps = [a for a in apps if a not in subset]
            case['removed_apps'] = sorted(subset)
        ev = proj.run('evolve_api', version=0, db=db, apps=apps)
        if ev.get('driver_error') or not ev['outcome']['ok']:
            return {'key': S.canon(desc), 'nontrivial': False, 'items': [],
                    'stats': {'skipped_install_failed': 1}, 'case': None,
                    'harness_error': str(ev)[:500]
                    if ev.get('driver_error') else None}
        proj.insert_rows(seqcase.gen_rows(rng, spec, max_rows=3), db)
        before = table_state(proj, db)
        sig_before = stored_apps(proj, db)
        # ---- the action
        # a third of the purges are the second purge of one process: the
        # same purge is first carried out on a copy of the database
        rehearse, rehearse_kw = {}, {}
        if mode in ('purge_cmd', 'purge_api') and desc['i'] % 3 == 0:
            proj.copy_db(db, 'rehearsal.sqlite3')
            rehearse = {'rehearse_on': 'other'}
            rehearse_kw = {'db2': 'rehearsal.sqlite3'}
            stats['second_purge_of_process'] = 1
        if mode == 'delete_model':
            ev = proj.run('evolve_cmd', version=1, db=db, apps=keep_apps)
        elif mode == 'no_purge':
            ev = proj.run(rng.choice(['evolve_cmd', 'evolve_api']),
                          version=0, db=db, apps=keep_apps)
        elif mode == 'purge_cmd':
            ev = proj.run('evolve_cmd', version=0, db=db, apps=keep_apps,
                          args=dict({'purge': True}, **rehearse), **rehearse_kw)
        else:
            purge_args = {'purge': True}
            if len(subset) >= 2 and rng.random() < 0.5:
                # only some of the stale apps are purged: the others keep
                # their tables and their signature entries
                part = set(rng.sample(sorted(subset),
                                      rng.randint(1, len(subset) - 1)))
                # where one stale app refers to another one, purge only the
                # one referred to (the referrer keeps its tables and rows)
                pairs = sorted(
                    (a, fd['to'].split('.')[0]) for a in subset
                    for ms in spec[a].values() for _n, fd in ms['fields']
                    if fd.get('to') and fd['to'].split('.')[0] in subset and
                    fd['to'].split('.')[0] != a)
                if pairs:
                    part = {rng.choice(pairs)[1]}
                kept_refers = any(fd.get('to', '').split('.')[0] in part
                                  for a in subset - part
                                  for ms in spec[a].values()
                                  for _n, fd in ms['fields'])
                stats['kept_referrer_seen'] = int(kept_refers)
                # (a stale app that is kept may refer to a purged one - its
                # rows then keep pointing at the dropped table - in every
                # other project where that happens)
                if (not kept_refers and removable(spec, apps, part)) or \
                        (kept_refers and desc['i'] % 4 != 0):
                    case['kept_stale_app_refers_to_purged'] = kept_refers
                    stats['kept_referrer_purges'] = int(kept_refers)
                    purge_args = {'purge_apps': sorted(part)}
                    stats['partial_purges'] = 1
                    case['purged_apps'] = sorted(part)
                    removed_tables = set(t for a in part for m in spec[a]
                                         for t in S.owned_tables(spec, a, m))
                    removed_sig = set(part)
            ev = proj.run('evolve_api', version=0, db=db, apps=keep_apps,
                          args=dict(purge_args, force=True,
                                    no_facts_before=True, **rehearse),
                          **rehearse_kw)
        ctx = {'mode': mode, 'second_run_of_process': bool(rehearse),
               'kept_referrer': bool(
                   case.get('kept_stale_app_refers_to_purged'))}
        if mode != 'delete_model':
            ctx['n_removed_apps'] = len(subset)
            stats['removed_%d_apps' % len(subset)] = 1
        if mode != 'delete_model' and mode != 'no_purge':
            psub = set(case.get('purged_apps') or subset)
            ctx['removed_app_has_internal_relation'] = any(
                fd.get('to', '').split('.')[0] in psub
                for a in psub for ms in spec[a].values()
                for _n, fd in ms['fields'])
            ctx['partial_purge'] = bool(case.get('purged_apps'))
        if ev.get('driver_error'):
            return {'key': S.canon(desc), 'nontrivial': False, 'items': [],
                    'stats': stats, 'case': case,
                    'harness_error': str(ev)[:500]}
        if not ev['outcome']['ok']:
            o = ev['outcome']
            items.append(dict(ctx, type='RUN_FAILED', exc=o['exc'],
                              site=o.get('site'), msg=o.get('msg', '')[:200]))
        after = table_state(proj, db)
        sig_after = stored_apps(proj, db)
        dropped = set(before) - set(after)
        expect_dropped = removed_tables if mode != 'no_purge' else set()
        for t in sorted(dropped - expect_dropped):
            items.append(dict(ctx, type='FOREIGN_TABLE_DROPPED', table=t))
        for t in sorted(expect_dropped - dropped):
            items.append(dict(ctx, type='OWNED_TABLE_NOT_DROPPED', table=t,
                              run_failed=not ev['outcome']['ok']))
        for t in sorted(set(after) - set(before)):
            if not t.startswith('django_'):
                items.append(dict(ctx, type='TABLE_APPEARED', table=t))
        for t in sorted(set(before) & set(after)):
            if t.startswith('django_'):
                continue
            stats['tables_compared'] = stats.get('tables_compared', 0) + 1
            if before[t] != after[t]:
                what = [k for k in ('sql', 'rows', 'indexes')
                        if before[t][k] != after[t][k]]
                items.append(dict(ctx, type='OTHER_TABLE_CHANGED', table=t,
                                  what=what))
        # signature entries
        for a in sorted(set(sig_before) | set(sig_after)):
            stats['sig_entries_compared'] = stats.get(
                'sig_entries_compared', 0) + 1
            gone = a not in sig_after
            if mode in ('purge_cmd', 'purge_api') and a in removed_sig:
                if not gone:
                    items.append(dict(ctx, type='PURGED_APP_STILL_IN_SIG',
                                      app=a, models_left=len(json.loads(
                                          sig_after[a]).get('models', {})),
                                      run_failed=not ev['outcome']['ok']))
            elif mode == 'delete_model' and a in removed_sig:
                ent = json.loads(sig_after.get(a, '{}'))
                if case['deleted'][1] in ent.get('models', {}):
                    items.append(dict(ctx, type='DELETED_MODEL_STILL_IN_SIG',
                                      app=a))
            else:
                if gone:
                    items.append(dict(ctx, type='SIG_ENTRY_REMOVED', app=a))
                elif sig_before.get(a) != sig_after.get(a) and \
                        a in sig_before:
                    items.append(dict(ctx, type='OTHER_SIG_ENTRY_CHANGED',
                                      app=a))
        # a further run is a no-op
        sha = proj.sha(db)
        args = {'purge': True} if mode in ('purge_cmd', 'purge_api') and \
            not case.get('purged_apps') else {}
        ev2 = proj.run('evolve_cmd', version=1 if mode == 'delete_model'
                       else 0, db=db, apps=keep_apps, args=args)
        if not ev2.get('driver_error'):
            mut = [e['sql'] for e in ev2['events'] if e['kind'] == 'sql'
                   and e.get('mutating') and e.get('inrun')]
            if mut:
                items.append(dict(ctx, type='RERUN_EXECUTED_SQL',
                                  sql=mut[0][:120]))
        nontrivial = bool(removed_tables) and bool(
            set(before) - removed_tables - set(
                t for t in before if t.startswith('django_')))
    finally:
        stats['decoy_runs'] = proj.decoy_runs
        proj.cleanup()
    return {'key': S.canon([spec, case.get('removed_apps'),
                            case.get('deleted'), mode]),
            'nontrivial': nontrivial, 'items': items, 'stats': stats,
            'case': case}
