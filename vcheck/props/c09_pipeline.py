"""C09 pipeline pool: the order in which the real Evolver applies pending
evolutions of several apps, observed through the applying_evolution signals
of generated on-disk projects, must be a linear extension of every ordering
requirement the harness put into the project (sequence order, AFTER_/BEFORE_
EVOLUTIONS at evolution and app level), every pending evolution must be
applied exactly once, requirements on already applied evolutions must be
ignored, and contradictory requirements must be reported as an error with
the database untouched.
"""
import random

from .. import projlab, seqcase
from .. import specs as S

SIZES = {'quick': 60, 'thorough': 600}
APPS = ('app1', 'app2', 'app3', 'app4', 'app5')


def plan(tier, es):
    return [{'mode': 'pipeline', 'seed': es, 'i': i}
            for i in range(SIZES[tier])]


def gen(rng):
    napps = rng.randint(2, 5)
    apps = list(APPS[:napps])
    nevo = {a: rng.randint(0, 3) for a in apps}
    if sum(nevo.values()) < 2:
        nevo[apps[0]] = 2
    applied = {a: rng.randint(0, nevo[a]) if rng.random() < 0.4 else 0
               for a in apps}
    units = [(a, 'e%d' % (k + 1)) for a in apps for k in range(nevo[a])]
    pending = [(a, 'e%d' % (k + 1)) for a in apps
               for k in range(applied[a], nevo[a])]
    # a random global order consistent with the per-app sequence order
    order = list(pending)
    rng.shuffle(order)
    order.sort(key=lambda u: 0)     # keep shuffle
    per_app = {a: [u for u in pending if u[0] == a] for a in apps}
    merged = []
    pools = {a: list(v) for a, v in per_app.items() if v}
    while pools:
        a = rng.choice(sorted(pools))
        merged.append(pools[a].pop(0))
        if not pools[a]:
            del pools[a]
    pos = {u: i for i, u in enumerate(merged)}
    evo_deps = {}       # unit -> {'AFTER_EVOLUTIONS': [...], ...}
    app_deps = {}       # app -> {...}
    constraints = []    # (before unit, after unit) among pending
    ignored = 0
    for u in units:
        deps = {}
        if rng.random() < 0.5:
            others = [v for v in units if v[0] != u[0]]
            rng.shuffle(others)
            for v in others[:rng.randint(1, 2)]:
                if u not in pos and v in pos:
                    # an already applied evolution cannot name one that was
                    # not visible yet when it was applied
                    continue
                if v not in pos or u not in pos:
                    # refers to / belongs to an already applied evolution:
                    # must be ignored at upgrade time.  Oriented by a fixed
                    # total order so that the installed state is acyclic.
                    if u not in pos:
                        first = units.index(v) < units.index(u)
                    else:
                        first = True        # applied v comes before pending u
                    key = 'AFTER_EVOLUTIONS' if first else 'BEFORE_EVOLUTIONS'
                    deps.setdefault(key, []).append(list(v))
                    ignored += 1
                elif pos[v] < pos[u]:
                    deps.setdefault('AFTER_EVOLUTIONS', []).append(list(v))
                    constraints.append((v, u))
                else:
                    deps.setdefault('BEFORE_EVOLUTIONS', []).append(list(v))
                    constraints.append((u, v))
        if deps:
            evo_deps[u] = deps
    # app-level: whole app after another whole app
    for a in apps:
        if rng.random() < 0.45 and per_app[a] and not applied[a]:
            # (only for an app without applied evolutions: an app-level
            # requirement also binds already applied ones and could
            # contradict how their requirements were oriented; the app it
            # waits for may be partially applied)
            cands = [b for b in apps if b != a and per_app[b] and
                     max(pos[x] for x in per_app[b]) <
                     min(pos[x] for x in per_app[a])]
            if cands:
                b = rng.choice(cands)
                app_deps[a] = {'AFTER_EVOLUTIONS': [b]}
                for x in per_app[b]:
                    for y in per_app[a]:
                        constraints.append((x, y))
    for a in apps:
        seq = per_app[a]
        for x, y in zip(seq, seq[1:]):
            constraints.append((x, y))
    cyclic = rng.random() < 0.2 and len(pending) >= 2
    if cyclic:
        # contradict an existing requirement (or create a 2-cycle)
        x, y = rng.sample(pending, 2)
        if x[0] == y[0]:
            cyclic = False
        else:
            evo_deps.setdefault(x, {}).setdefault(
                'AFTER_EVOLUTIONS', []).append(list(y))
            evo_deps.setdefault(y, {}).setdefault(
                'AFTER_EVOLUTIONS', []).append(list(x))
    return {'apps': apps, 'nevo': nevo, 'applied': applied,
            'pending': pending, 'evo_deps': evo_deps, 'app_deps': app_deps,
            'constraints': constraints, 'cyclic': cyclic,
            'ignored_refs': ignored}


def jsonable(g):
    g2 = dict(g)
    g2['evo_deps'] = {'%s.%s' % k: v for k, v in g['evo_deps'].items()}
    g2['constraints'] = [[list(a), list(b)] for a, b in g['constraints']]
    g2['pending'] = [list(x) for x in g['pending']]
    return g2


def run_case(desc):
    rng = seqcase.rng_for('C09p', desc['seed'], desc['i'])
    g = gen(rng)
    apps = g['apps']
    proj = projlab.Project()
    items, stats = [], {'projects': 1,
                        'constraints': len(g['constraints']),
                        'ignored_refs': g['ignored_refs']}
    try:
        for a in apps:
            n = g['nevo'][a]
            versions = []
            for v in range(n + 1):
                fields = [['v', {'kind': 'Integer'}]] + [
                    ['x%d' % (k + 1), {'kind': 'Integer', 'null': True}]
                    for k in range(v)]
                versions.append({'M': {'fields': fields, 'meta': {}}})
            evolutions = []
            for k in range(n):
                u = (a, 'e%d' % (k + 1))
                deps = {kk: [tuple(x) for x in vv]
                        for kk, vv in (g['evo_deps'].get(u) or {}).items()}
                evolutions.append((u[1], [
                    "AddField('M', 'x%d', models.IntegerField, null=True)"
                    % (k + 1)], deps))
            extra = ''
            for kk, vv in (g['app_deps'].get(a) or {}).items():
                extra += '%s = %r\n' % (kk, vv)
            proj.write_app(a, versions, evolutions,
                           nv=list(range(n + 1)), init_extra=extra)
        db = 'db.sqlite3'
        ev = proj.run('evolve_api', db=db, apps=apps,
                      app_versions={a: g['applied'][a] for a in apps})
        if ev.get('driver_error') or not ev['outcome']['ok']:
            return {'key': S.canon(desc), 'nontrivial': False, 'items': [],
                    'stats': {'skipped_install_failed': 1},
                    'case': jsonable(g),
                    'harness_error': str(ev.get('outcome') or ev)[:500]}
        sha = proj.sha(db)
        drv = rng.choice(['evolve_api', 'evolve_cmd'])
        ev = proj.run(drv, db=db, apps=apps,
                      app_versions={a: g['nevo'][a] for a in apps})
        if ev.get('driver_error'):
            return {'key': S.canon(desc), 'nontrivial': False, 'items': [],
                    'stats': stats, 'case': jsonable(g),
                    'harness_error': str(ev)[:500]}
        applied_order = []
        graph_order = []
        for e in ev['events']:
            if e['kind'] == 'signal' and e['name'] == 'applying_evolution':
                applied_order += [tuple(x) for x in e.get('evolutions') or []]
            elif e['kind'] == 'graph':
                graph_order = [tuple(k.split(':')[1:3]) for k in e['keys']
                               if k.startswith('evolution:')]
        ctx = {'cyclic': g['cyclic'], 'driver': drv}
        o = ev['outcome']
        if g['cyclic']:
            stats['unsatisfiable_checked'] = 1
            if o['ok']:
                items.append(dict(ctx, type='UNSATISFIABLE_NOT_REPORTED',
                                  order=[list(x) for x in applied_order]))
            else:
                if 'EvolutionException' not in o.get('mro', []) and \
                        o['exc'] != 'CommandError':
                    items.append(dict(ctx, type='UNSATISFIABLE_WRONG_ERROR',
                                      exc=o['exc'], site=o.get('site'),
                                      msg=o.get('msg', '')[:200]))
                if proj.sha(db) != sha:
                    mut = [e['sql'][:80] for e in ev['events']
                           if e['kind'] == 'sql' and e.get('mutating') and
                           e.get('inrun')]
                    if mut:
                        items.append(dict(ctx, type='UNSATISFIABLE_TOUCHED_DB',
                                          sql=mut[:2]))
        else:
            stats['orders_checked'] = 1
            if not o['ok']:
                items.append(dict(ctx, type='RUN_FAILED', exc=o['exc'],
                                  site=o.get('site'),
                                  msg=o.get('msg', '')[:200]))
            else:
                want = sorted(g['pending'])
                if sorted(applied_order) != want:
                    items.append(dict(
                        ctx, type='PENDING_NOT_APPLIED_ONCE',
                        missing=[list(x) for x in want
                                 if x not in applied_order],
                        extra=[list(x) for x in applied_order
                               if x not in want or
                               applied_order.count(x) > 1]))
                pos = {u: i for i, u in enumerate(applied_order)}
                # evidence: can the requirements be met at all while every
                # app's pending evolutions stay in one contiguous block?
                import itertools
                blocks = {}
                for u in g['pending']:
                    blocks.setdefault(u[0], []).append(u)
                needs_interleave = True
                for perm in itertools.permutations(sorted(blocks)):
                    flat = [u for a in perm for u in blocks[a]]
                    p2 = {u: i for i, u in enumerate(flat)}
                    if all(p2[x] < p2[y] for x, y in g['constraints']):
                        needs_interleave = False
                        break
                ctx['needs_interleave'] = needs_interleave
                # evidence from the real EvolutionGraph: did the ordered
                # graph satisfy every requirement, and did it interleave
                # the evolutions of an app with those of another?
                gp = {u: i for i, u in enumerate(graph_order)}
                ctx['graph_order_ok'] = bool(graph_order) and all(
                    gp[x] < gp[y] for x, y in g['constraints']
                    if x in gp and y in gp)
                inter = False
                seen_apps = []
                for u in graph_order:
                    if u not in pos:
                        continue
                    if seen_apps and seen_apps[-1] != u[0] and \
                            u[0] in seen_apps:
                        inter = True
                    if not seen_apps or seen_apps[-1] != u[0]:
                        seen_apps.append(u[0])
                ctx['graph_interleaves_apps'] = inter
                for x, y in g['constraints']:
                    stats['constraints_checked'] = stats.get(
                        'constraints_checked', 0) + 1
                    if x in pos and y in pos and pos[x] > pos[y]:
                        items.append(dict(ctx, type='ORDER_VIOLATED',
                                          before=list(x), after=list(y),
                                          observed=[list(u) for u in
                                                    applied_order]))
                        break
    finally:
        proj.cleanup()
    g2 = jsonable(g)
    return {'key': 'pipeline:' + S.canon(g2),
            'nontrivial': bool(g['constraints']), 'items': items,
            'stats': stats, 'case': g2}
