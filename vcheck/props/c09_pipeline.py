"""C09 pipeline pool: the order in which the real Evolver applies pending
evolutions of several apps, observed through the applying_evolution signals
of generated on-disk projects, must be a linear extension of every ordering
requirement the harness put into the project (sequence order, AFTER_/BEFORE_
EVOLUTIONS at evolution and app level), every pending evolution must be
applied exactly once, requirements on already applied evolutions must be
ignored, and contradictory requirements must be reported as an error with
the database untouched.
"""
import os
import random

from .. import projlab, seqcase
from .. import specs as S

SIZES = {'quick': 60, 'thorough': 600}
APPS = ('app1', 'app2', 'app3', 'app4', 'app5')


def plan(tier, es):
    return [{'mode': 'pipeline', 'seed': es, 'i': i}
            for i in range(SIZES[tier])]


def gen(rng):
    napps = rng.randint(2, 5)
    apps = list(APPS[:napps])
    nevo = {a: rng.randint(0, 3) for a in apps}
    if sum(nevo.values()) < 2:
        nevo[apps[0]] = 2
    applied = {a: rng.randint(0, nevo[a]) if rng.random() < 0.4 else 0
               for a in apps}
    units = [(a, 'e%d' % (k + 1)) for a in apps for k in range(nevo[a])]
    pending = [(a, 'e%d' % (k + 1)) for a in apps
               for k in range(applied[a], nevo[a])]
    # a random global order consistent with the per-app sequence order
    order = list(pending)
    rng.shuffle(order)
    order.sort(key=lambda u: 0)     # keep shuffle
    per_app = {a: [u for u in pending if u[0] == a] for a in apps}
    merged = []
    pools = {a: list(v) for a, v in per_app.items() if v}
    while pools:
        a = rng.choice(sorted(pools))
        merged.append(pools[a].pop(0))
        if not pools[a]:
            del pools[a]
    pos = {u: i for i, u in enumerate(merged)}
    evo_deps = {}       # unit -> {'AFTER_EVOLUTIONS': [...], ...}
    app_deps = {}       # app -> {...}
    constraints = []    # (before unit, after unit) among pending
    ignored = 0
    for u in units:
        deps = {}
        if rng.random() < 0.5:
            others = [v for v in units if v[0] != u[0]]
            rng.shuffle(others)
            for v in others[:rng.randint(1, 2)]:
                if u not in pos and v in pos:
                    # an already applied evolution cannot name one that was
                    # not visible yet when it was applied
                    continue
                if v not in pos or u not in pos:
                    # refers to / belongs to an already applied evolution:
                    # must be ignored at upgrade time.  Oriented by a fixed
                    # total order so that the installed state is acyclic.
                    if u not in pos:
                        first = units.index(v) < units.index(u)
                    else:
                        first = True        # applied v comes before pending u
                    key = 'AFTER_EVOLUTIONS' if first else 'BEFORE_EVOLUTIONS'
                    deps.setdefault(key, []).append(list(v))
                    ignored += 1
                elif pos[v] < pos[u]:
                    deps.setdefault('AFTER_EVOLUTIONS', []).append(list(v))
                    constraints.append((v, u))
                else:
                    deps.setdefault('BEFORE_EVOLUTIONS', []).append(list(v))
                    constraints.append((u, v))
        if deps:
            evo_deps[u] = deps
    # app-level: whole app after another whole app
    for a in apps:
        if rng.random() < 0.45 and per_app[a] and not applied[a]:
            # (only for an app without applied evolutions: an app-level
            # requirement also binds already applied ones and could
            # contradict how their requirements were oriented; the app it
            # waits for may be partially applied)
            cands = [b for b in apps if b != a and per_app[b] and
                     max(pos[x] for x in per_app[b]) <
                     min(pos[x] for x in per_app[a])]
            if cands:
                b = rng.choice(cands)
                app_deps[a] = {'AFTER_EVOLUTIONS': [b]}
                for x in per_app[b]:
                    for y in per_app[a]:
                        constraints.append((x, y))
    for a in apps:
        seq = per_app[a]
        for x, y in zip(seq, seq[1:]):
            constraints.append((x, y))
    cyclic = rng.random() < 0.2 and len(pending) >= 2
    if cyclic:
        # contradict an existing requirement (or create a 2-cycle)
        x, y = rng.sample(pending, 2)
        if x[0] == y[0]:
            # an evolution that has to wait for a later one of its own app
            a, b = sorted([x, y], key=lambda u: int(u[1][1:]))
            evo_deps.setdefault(a, {}).setdefault(
                'AFTER_EVOLUTIONS', []).append(list(b))
        else:
            evo_deps.setdefault(x, {}).setdefault(
                'AFTER_EVOLUTIONS', []).append(list(y))
            evo_deps.setdefault(y, {}).setdefault(
                'AFTER_EVOLUTIONS', []).append(list(x))
    return {'apps': apps, 'nevo': nevo, 'applied': applied,
            'pending': pending, 'evo_deps': evo_deps, 'app_deps': app_deps,
            'constraints': constraints, 'cyclic': cyclic,
            'ignored_refs': ignored}


def jsonable(g):
    g2 = dict(g)
    g2['evo_deps'] = {'%s.%s' % k: v for k, v in g['evo_deps'].items()}
    g2['constraints'] = [[list(a), list(b)] for a, b in g['constraints']]
    g2['pending'] = [list(x) for x in g['pending']]
    return g2


def run_case(desc):
    rng = seqcase.rng_for('C09p', desc['seed'], desc['i'])
    g = gen(rng)
    apps = g['apps']
    proj = projlab.Project()
    items, stats = [], {'projects': 1,
                        'constraints': len(g['constraints']),
                        'ignored_refs': g['ignored_refs']}
    try:
        for a in apps:
            n = g['nevo'][a]
            versions = []
            for v in range(n + 1):
                fields = [['v', {'kind': 'Integer'}]] + [
                    ['x%d' % (k + 1), {'kind': 'Integer', 'null': True}]
                    for k in range(v)]
                versions.append({'M': {'fields': fields, 'meta': {}}})
            evolutions = []
            for k in range(n):
                u = (a, 'e%d' % (k + 1))
                deps = {kk: [tuple(x) for x in vv]
                        for kk, vv in (g['evo_deps'].get(u) or {}).items()}
                evolutions.append((u[1], [
                    "AddField('M', 'x%d', models.IntegerField, null=True)"
                    % (k + 1)], deps))
            extra = ''
            for kk, vv in (g['app_deps'].get(a) or {}).items():
                extra += '%s = %r\n' % (kk, vv)
            proj.write_app(a, versions, evolutions,
                           nv=list(range(n + 1)), init_extra=extra)
        db = 'db.sqlite3'
        # a third of the projects: the observed database is a second,
        # non-default one; the default database is upgraded completely
        # first, so what is pending differs between the two
        second = desc['i'] % 3 == 1 and not g['cyclic']
        kw = {}
        if second:
            stats['second_database_projects'] = 1
            kw = {'db2': 'other.sqlite3', 'args': {'database': 'other'}}
            for av in (g['applied'], g['nevo']):
                ev = proj.run('evolve_api', db=db, apps=apps,
                              db2='other.sqlite3',
                              app_versions={a: av[a] for a in apps})
                if ev.get('driver_error') or not ev['outcome']['ok']:
                    # (a run the single-database projects judge)
                    second, kw = False, {}
                    import os
                    os.unlink(proj.path(db))
                    stats['second_database_projects'] = 0
                    break
        ev = proj.run('evolve_api', db=db, apps=apps,
                      app_versions={a: g['applied'][a] for a in apps}, **kw)
        if ev.get('driver_error') or not ev['outcome']['ok']:
            return {'key': S.canon(desc), 'nontrivial': False, 'items': [],
                    'stats': {'skipped_install_failed': 1},
                    'case': jsonable(g),
                    'harness_error': str(ev.get('outcome') or ev)[:500]}
        if second:
            db_default, db = db, 'other.sqlite3'
            sha_default = proj.sha(db_default)
        sha = proj.sha(db)
        drv = rng.choice(['evolve_api', 'evolve_cmd'])
        ev = proj.run(drv, db=db if not second else db_default, apps=apps,
                      app_versions={a: g['nevo'][a] for a in apps}, **kw)
        if second and not ev.get('driver_error') and \
                proj.sha(db_default) != sha_default:
            items.append({'type': 'DEFAULT_DATABASE_CHANGED',
                          'driver': drv})
        if ev.get('driver_error'):
            return {'key': S.canon(desc), 'nontrivial': False, 'items': [],
                    'stats': stats, 'case': jsonable(g),
                    'harness_error': str(ev)[:500]}
        applied_order = []
        graph_order = []
        for e in ev['events']:
            if e['kind'] == 'signal' and e['name'] == 'applying_evolution':
                applied_order += [tuple(x) for x in e.get('evolutions') or []]
            elif e['kind'] == 'graph':
                graph_order = [tuple(k.split(':')[1:3]) for k in e['keys']
                               if k.startswith('evolution:')]
        ctx = {'cyclic': g['cyclic'], 'driver': drv, 'second_db': second}
        o = ev['outcome']
        if g['cyclic']:
            stats['unsatisfiable_checked'] = 1
            if o['ok']:
                items.append(dict(ctx, type='UNSATISFIABLE_NOT_REPORTED',
                                  order=[list(x) for x in applied_order]))
            else:
                if 'EvolutionException' not in o.get('mro', []) and \
                        o['exc'] != 'CommandError':
                    items.append(dict(ctx, type='UNSATISFIABLE_WRONG_ERROR',
                                      exc=o['exc'], site=o.get('site'),
                                      msg=o.get('msg', '')[:200]))
                if proj.sha(db) != sha:
                    mut = [e['sql'][:80] for e in ev['events']
                           if e['kind'] == 'sql' and e.get('mutating') and
                           e.get('inrun')]
                    if mut:
                        items.append(dict(ctx, type='UNSATISFIABLE_TOUCHED_DB',
                                          sql=mut[:2]))
        else:
            stats['orders_checked'] = 1
            if not o['ok']:
                items.append(dict(ctx, type='RUN_FAILED', exc=o['exc'],
                                  site=o.get('site'),
                                  msg=o.get('msg', '')[:200]))
            else:
                want = sorted(g['pending'])
                if sorted(applied_order) != want:
                    items.append(dict(
                        ctx, type='PENDING_NOT_APPLIED_ONCE',
                        missing=[list(x) for x in want
                                 if x not in applied_order],
                        extra=[list(x) for x in applied_order
                               if x not in want or
                               applied_order.count(x) > 1]))
                pos = {u: i for i, u in enumerate(applied_order)}
                # evidence: can the requirements be met at all while every
                # app's pending evolutions stay in one contiguous block?
                import itertools
                blocks = {}
                for u in g['pending']:
                    blocks.setdefault(u[0], []).append(u)
                needs_interleave = True
                for perm in itertools.permutations(sorted(blocks)):
                    flat = [u for a in perm for u in blocks[a]]
                    p2 = {u: i for i, u in enumerate(flat)}
                    if all(p2[x] < p2[y] for x, y in g['constraints']):
                        needs_interleave = False
                        break
                ctx['needs_interleave'] = needs_interleave
                # evidence from the real EvolutionGraph: did the ordered
                # graph satisfy every requirement, and did it interleave
                # the evolutions of an app with those of another?
                gp = {u: i for i, u in enumerate(graph_order)}
                ctx['graph_order_ok'] = bool(graph_order) and all(
                    gp[x] < gp[y] for x, y in g['constraints']
                    if x in gp and y in gp)
                inter = False
                seen_apps = []
                for u in graph_order:
                    if u not in pos:
                        continue
                    if seen_apps and seen_apps[-1] != u[0] and \
                            u[0] in seen_apps:
                        inter = True
                    if not seen_apps or seen_apps[-1] != u[0]:
                        seen_apps.append(u[0])
                ctx['graph_interleaves_apps'] = inter
                for x, y in g['constraints']:
                    stats['constraints_checked'] = stats.get(
                        'constraints_checked', 0) + 1
                    if x in pos and y in pos and pos[x] > pos[y]:
                        items.append(dict(ctx, type='ORDER_VIOLATED',
                                          before=list(x), after=list(y),
                                          observed=[list(u) for u in
                                                    applied_order]))
                        break
    finally:
        proj.cleanup()
    g2 = jsonable(g)
    return {'key': 'pipeline:' + S.canon(g2),
            'nontrivial': bool(g['constraints']), 'items': items,
            'stats': stats, 'case': g2}


# ------------------------------------------------------------------------
# pool "pipeline_mig": evolution apps next to apps managed by migrations,
# AFTER_/BEFORE_MIGRATIONS requirements of evolutions, Django's own
# migration dependencies (within and across apps), migrations partly applied

MIG_SIZES = {'quick': 60, 'thorough': 600}
EVO_APPS = ('app1', 'app2')
MIG_APPS = ('app4', 'app5')


def plan_mig(tier, es):
    return [{'mode': 'pipeline_mig', 'seed': es, 'i': i}
            for i in range(MIG_SIZES[tier])]


def gen_mig(rng):
    eapps = list(EVO_APPS[:rng.randint(1, 2)])
    mapps = list(MIG_APPS[:rng.randint(1, 2)])
    nevo = {a: rng.randint(1, 2) for a in eapps}
    nmig = {a: rng.randint(1, 3) for a in mapps}
    # what is already applied: evolution apps at version 0 or partly; a
    # migration app is either not installed yet (0) or has a prefix applied
    applied_e = {a: rng.randint(0, nevo[a] - 1) for a in eapps}
    applied_m = {a: rng.choice([0, rng.randint(0, nmig[a] - 1)])
                 for a in mapps}
    # an evolution app may be handed over to migrations by its last
    # evolution (which then carries an AddField *and* MoveToDjangoMigrations)
    moved = {a: rng.random() < 0.3 for a in eapps}
    names = {a: ['0001_initial'] + ['%04d_x%d' % (k, k)
                                    for k in range(2, nmig[a] + 1)]
             for a in mapps}
    pend_e = {a: [('E', a, 'e%d' % (k + 1))
                  for k in range(applied_e[a], nevo[a])] for a in eapps}
    pend_m = {a: [('M', a, names[a][k])
                  for k in range(applied_m[a], nmig[a])] for a in mapps}
    # hidden order: a random merge of the per-app pending chains
    pools = {('E', a): list(v) for a, v in pend_e.items() if v}
    pools.update({('M', a): list(v) for a, v in pend_m.items() if v})
    merged = []
    while pools:
        k = rng.choice(sorted(pools))
        merged.append(pools[k].pop(0))
        if not pools[k]:
            del pools[k]
    pos = {u: i for i, u in enumerate(merged)}
    constraints = []
    for chain in list(pend_e.values()) + list(pend_m.values()):
        for x, y in zip(chain, chain[1:]):
            constraints.append((x, y))
    # cross-app migration dependencies (pending on pending, consistent with
    # the hidden order; or on an applied migration = always satisfied)
    cross = {a: {} for a in mapps}
    if len(mapps) == 2:
        for a in mapps:
            b = [x for x in mapps if x != a][0]
            for k in range(applied_m[a], nmig[a]):
                if rng.random() < 0.35:
                    u = ('M', a, names[a][k])
                    cands = [('M', b, n) for n in names[b]
                             if ('M', b, n) not in pos or
                             pos[('M', b, n)] < pos[u]]
                    if cands:
                        v = rng.choice(cands)
                        cross[a].setdefault(k + 1, []).append((b, v[2]))
                        if v in pos:
                            constraints.append((v, u))
    # evolution requirements on migrations
    evo_deps = {}
    for a in eapps:
        for u in pend_e[a]:
            deps = {}
            for _rep in range(rng.choice([0, 1, 1, 2])):
                b = rng.choice(mapps)
                n = rng.choice(names[b])
                v = ('M', b, n)
                if (b, n) in deps.get('AFTER_MIGRATIONS', []) + deps.get(
                        'BEFORE_MIGRATIONS', []):
                    continue
                if v not in pos or pos[v] < pos[u]:
                    deps.setdefault('AFTER_MIGRATIONS', []).append((b, n))
                    if v in pos:
                        constraints.append((v, u))
                else:
                    deps.setdefault('BEFORE_MIGRATIONS', []).append((b, n))
                    constraints.append((u, v))
            if deps:
                evo_deps[u] = deps
    # the last evolution of some apps changes nothing (no mutation, or only
    # the hand-over).  Where the hidden order has a pending migration between
    # the two evolutions of such an app, requirements pin it there, so the
    # silent evolution forms a batch of its own without any SQL
    empty_last = {a: nevo[a] == 2 and applied_e[a] == 0 and
                  rng.random() < 0.5 for a in eapps}
    split_batches = 0
    for a in eapps:
        if not empty_last[a]:
            continue
        u1, u2 = ('E', a, 'e1'), ('E', a, 'e2')
        between = [v for v in merged
                   if v[0] == 'M' and pos[u1] < pos[v] < pos[u2]]
        if between:
            v = between[0]
            d1 = evo_deps.setdefault(u1, {})
            d2 = evo_deps.setdefault(u2, {})
            if (v[1], v[2]) not in d1.get('BEFORE_MIGRATIONS', []) + \
                    d1.get('AFTER_MIGRATIONS', []):
                d1.setdefault('BEFORE_MIGRATIONS', []).append((v[1], v[2]))
                constraints.append((u1, v))
            if (v[1], v[2]) not in d2.get('BEFORE_MIGRATIONS', []) + \
                    d2.get('AFTER_MIGRATIONS', []):
                d2.setdefault('AFTER_MIGRATIONS', []).append((v[1], v[2]))
                constraints.append((v, u2))
            split_batches += 1
    return {'eapps': eapps, 'mapps': mapps, 'nevo': nevo, 'nmig': nmig,
            'applied_e': applied_e, 'applied_m': applied_m, 'names': names,
            'pending': merged, 'constraints': constraints, 'cross': cross,
            'evo_deps': evo_deps, 'moved': moved,
            'empty_last': empty_last, 'silent_split_batches': split_batches}


def gen_mig_cross(rng):
    """A dependency that crosses the two stages in which migrations are
    planned: Z is a new migrations app (its initial migration is planned
    before the evolutions), W is partly applied (its pending migration is
    planned after them) and depends on Z's initial migration; evolutions of
    two apps wait for W's pending migration and for Z's initial one."""
    z, w = rng.sample(list(MIG_APPS), 2)
    nmig = {z: rng.randint(1, 2), w: rng.randint(2, 3)}
    applied_m = {z: 0, w: rng.randint(1, nmig[w] - 1)}
    mapps = sorted([z, w])
    names = {a: ['0001_initial'] + ['%04d_x%d' % (k, k)
                                    for k in range(2, nmig[a] + 1)]
             for a in mapps}
    eapps = list(EVO_APPS)
    early, late = rng.sample(eapps, 2)
    nevo = {a: rng.randint(1, 2) for a in eapps}
    applied_e = {a: rng.randint(0, nevo[a] - 1) for a in eapps}
    wk = applied_m[w]               # index of W's first pending migration
    W = ('M', w, names[w][wk])
    Z = ('M', z, names[z][0])
    ue = ('E', early, 'e%d' % (applied_e[early] + 1))
    ul = ('E', late, 'e%d' % (applied_e[late] + 1))
    cross = {a: {} for a in mapps}
    cross[w][wk + 1] = [(z, names[z][0])]
    evo_deps = {ue: {'AFTER_MIGRATIONS': [(w, W[2])]},
                ul: {'AFTER_MIGRATIONS': [(z, Z[2])]}}
    pend_e = {a: [('E', a, 'e%d' % (k + 1))
                  for k in range(applied_e[a], nevo[a])] for a in eapps}
    pend_m = {a: [('M', a, names[a][k])
                  for k in range(applied_m[a], nmig[a])] for a in mapps}
    constraints = [(Z, W), (W, ue), (Z, ul)]
    for chain in list(pend_e.values()) + list(pend_m.values()):
        constraints += list(zip(chain, chain[1:]))
    pending = [u for c in list(pend_m.values()) + list(pend_e.values())
               for u in c]
    return {'eapps': eapps, 'mapps': mapps, 'nevo': nevo, 'nmig': nmig,
            'applied_e': applied_e, 'applied_m': applied_m, 'names': names,
            'pending': pending, 'constraints': constraints, 'cross': cross,
            'evo_deps': evo_deps, 'moved': {a: False for a in eapps},
            'cross_stage': True}


def write_and_install(proj, g):
    """Write the project of g into proj and bring the database to the
    already-applied state.  -> (kwargs of the upgrade run, None) or
    (None, error text)."""
    for a in g['eapps']:
        n = g['nevo'][a]
        versions = []
        empty_last = (g.get('empty_last') or {}).get(a)
        for v in range(n + 1):
            fields = [['v', {'kind': 'Integer'}]] + [
                ['x%d' % (k + 1), {'kind': 'Integer', 'null': True}]
                for k in range(v) if not (empty_last and k == n - 1)]
            versions.append({'M': {'fields': fields, 'meta': {}}})
        evolutions = []
        for k in range(n):
            u = ('E', a, 'e%d' % (k + 1))
            texts = ["AddField('M', 'x%d', models.IntegerField, "
                     "null=True)" % (k + 1)]
            if empty_last and k == n - 1:
                texts = []
            if g['moved'][a] and k == n - 1:
                texts.append('MoveToDjangoMigrations()')
            evolutions.append((u[2], texts, g['evo_deps'].get(u) or {}))
        proj.write_app(a, versions, evolutions, nv=list(range(n + 1)))
        if g['moved'][a]:
            # the migration the app is handed over to: the final table
            pkg = proj.path(a, 'migs_real')
            os.makedirs(pkg)
            open(os.path.join(pkg, '__init__.py'), 'w').close()
            fields = ''.join(
                "('x%d', models.IntegerField(null=True)), " % (k + 1)
                for k in range(n) if not (empty_last and k == n - 1))
            with open(os.path.join(pkg, '0001_initial.py'), 'w') as f:
                f.write(
                    'from django.db import migrations, models\n\n\n'
                    'class Migration(migrations.Migration):\n'
                    '    initial = True\n    dependencies = []\n'
                    "    operations = [migrations.CreateModel(name='M', "
                    "fields=[('id', models.AutoField(auto_created=True, "
                    "primary_key=True, serialize=False, "
                    "verbose_name='ID')), ('v', models.IntegerField()), "
                    '%s])]\n' % fields)
    for a in g['mapps']:
        proj.write_mig_app(a, g['nmig'][a], g['cross'][a])
    db = 'db.sqlite3'
    inst_apps = list(g['eapps']) + [a for a in g['mapps']
                                    if g['applied_m'][a] > 0]
    av = dict(g['applied_e'])
    av.update({a: g['applied_m'][a] for a in g['mapps']})
    migmods = {a: '%s.migs_%d' % (a, g['applied_m'][a])
               for a in g['mapps'] if g['applied_m'][a] > 0}
    migmods.update({a: None for a in g['eapps']})
    ev = proj.run('evolve_api', db=db, apps=inst_apps, app_versions=av,
                  migmods=migmods)
    if ev.get('driver_error') or not ev['outcome']['ok']:
        return None, str(ev.get('outcome') or ev)[:500]
    # ---- the observed upgrade
    apps = list(g['eapps']) + list(g['mapps'])
    av = dict(g['nevo'])
    av.update(g['nmig'])
    migmods = {a: '%s.migs_%d' % (a, g['nmig'][a]) for a in g['mapps']}
    migmods.update({a: '%s.migs_real' % a if g['moved'][a] else None
                    for a in g['eapps']})
    return {'db': db, 'apps': apps, 'app_versions': av,
            'migmods': migmods}, None


def run_mig_case(desc):
    rng = seqcase.rng_for('C09m', desc['seed'], desc['i'])
    if desc['i'] % 4 == 3:
        g = gen_mig_cross(rng)
    else:
        g = gen_mig(rng)
    proj = projlab.Project()
    items = []
    stats = {'mig_projects': 1, 'constraints': len(g['constraints']),
             'cross_stage_projects': int(bool(g.get('cross_stage')))}
    case = {
        'applied_e': g['applied_e'], 'applied_m': g['applied_m'],
        'nevo': g['nevo'], 'nmig': g['nmig'],
        'pending': ['%s:%s:%s' % u for u in g['pending']],
        'constraints': [['%s:%s:%s' % x, '%s:%s:%s' % y]
                        for x, y in g['constraints']],
        'evo_deps': {'%s:%s:%s' % k: v for k, v in g['evo_deps'].items()},
        'cross': g['cross'], 'moved': g['moved']}
    try:
        up, err = write_and_install(proj, g)
        if up is None:
            return {'key': S.canon(desc), 'nontrivial': False, 'items': [],
                    'stats': {'skipped_install_failed': 1}, 'case': case,
                    'harness_error': err}
        db, apps, av, migmods = up['db'], up['apps'], up['app_versions'], \
            up['migmods']
        drv = rng.choice(['evolve_api', 'evolve_cmd', 'migrate_cmd'])
        ev = proj.run(drv, db=db, apps=apps, app_versions=av,
                      migmods=migmods)
        if ev.get('driver_error'):
            return {'key': S.canon(desc), 'nontrivial': False, 'items': [],
                    'stats': stats, 'case': case,
                    'harness_error': str(ev)[:500]}
        pending_temp = [None]
        copied = [None]
        twice = []
        # order of execution: a migration is placed by its
        # applying_migration signal, an evolution e<k> by the first
        # statement that introduces its column x<k> (when the evolutions of
        # one app are split over several batches every applying_evolution
        # signal lists all of them - what the signals say is C17's matter)
        import re
        order = []
        listed = []
        for e in ev['events']:
            if e['kind'] == 'signal' and e['name'] == 'applying_evolution':
                listed += [('E', x[0], x[1]) for x in e.get('evolutions')
                           or []]
            elif e['kind'] == 'signal' and \
                    e['name'] == 'applying_migration' and \
                    e.get('migration') and e['migration'][0] in g['mapps']:
                order.append(('M', e['migration'][0], e['migration'][1]))
            elif e['kind'] == 'sql' and e.get('mutating') and e.get('ok') \
                    and e.get('inrun'):
                m = re.match(r'\s*(?:ALTER TABLE "(app[12])_m" ADD COLUMN '
                             r'"x(\d)"|CREATE TABLE "TEMP_TABLE")', e['sql'])
                if m and m.group(1):
                    u = ('E', m.group(1), 'e' + m.group(2))
                    if u not in order:
                        order.append(u)
                    else:
                        twice.append(u)
                elif m:
                    pending_temp[0] = [int(x) for x in re.findall(
                        r'"x(\d)"', e['sql'])]
                    copied[0] = None
                m3 = re.match(r'\s*INSERT INTO "TEMP_TABLE" \(([^)]*)\)',
                              e['sql'])
                if m3:
                    copied[0] = [int(x) for x in re.findall(
                        r'"x(\d)"', m3.group(1))]
                m2 = re.match(r'\s*ALTER TABLE "TEMP_TABLE" RENAME TO '
                              r'"(app[12])_m"', e['sql'])
                if m2 and pending_temp[0] is not None:
                    for k in pending_temp[0]:
                        u = ('E', m2.group(1), 'e%d' % k)
                        if u not in order and u in set(g['pending']):
                            order.append(u)
                        elif copied[0] is not None and k not in copied[0]:
                            # the rebuild introduces (again) a column that
                            # an earlier statement of this run introduced
                            twice.append(u)
                    pending_temp[0] = None
        if len(listed) != len(set(listed)):
            stats['signals_listing_an_evolution_twice'] = 1
        ctx = {'driver': drv, 'mig': True}
        o = ev['outcome']
        stats['mig_orders_checked'] = 1
        if twice:
            items.append(dict(ctx, type='EVOLUTION_EXECUTED_TWICE',
                              units=sorted(set('%s:%s:%s' % u
                                               for u in twice))))
        if not o['ok']:
            items.append(dict(ctx, type='RUN_FAILED', exc=o['exc'],
                              site=o.get('site'), msg=o.get('msg', '')[:200]))
        else:
            # (an evolution without mutations leaves no statement by which
            # it could be placed)
            silent = set(('E', a, 'e%d' % g['nevo'][a])
                         for a, on in (g.get('empty_last') or {}).items()
                         if on)
            stats['silent_evolutions'] = len(silent)
            stats['silent_split_batches'] = g.get('silent_split_batches', 0)
            want = sorted(u for u in g['pending'] if u not in silent)
            if sorted(order) != want:
                items.append(dict(
                    ctx, type='PENDING_NOT_APPLIED_ONCE',
                    missing=['%s:%s:%s' % x for x in want if x not in order],
                    extra=['%s:%s:%s' % x for x in order if x not in want or
                           order.count(x) > 1]))
            p = {u: i for i, u in enumerate(order)}
            for x, y in g['constraints']:
                stats['constraints_checked'] = stats.get(
                    'constraints_checked', 0) + 1
                if x in p and y in p and p[x] > p[y]:
                    # evidence for classification
                    kinds = x[0] + y[0]
                    items.append(dict(
                        ctx, type='ORDER_VIOLATED', pair_kinds=kinds,
                        before='%s:%s:%s' % x, after='%s:%s:%s' % y,
                        after_is_initial_migration=(
                            y[0] == 'M' and y[2] == '0001_initial'),
                        before_is_later_evolution_of_app=(
                            x[0] == 'E' and x[2] != 'e%d' % (
                                g['applied_e'][x[1]] + 1)),
                        after_is_later_evolution_of_app=(
                            y[0] == 'E' and y[2] != 'e%d' % (
                                g['applied_e'][y[1]] + 1)),
                        observed=['%s:%s:%s' % u for u in order]))
                    break
    finally:
        proj.cleanup()
    return {'key': 'pipeline_mig:' + S.canon(case),
            'nontrivial': bool(g['constraints']), 'items': items,
            'stats': stats, 'case': case}
