"""C12 - upgrades that cannot reach the current models never touch the database.

The harness perturbs a valid generated evolution and decides reachability
itself by replaying the perturbed mutation list one mutation at a time with
the real run_simulation on a clone of the stored signature and comparing with
the signature of the current models (no optimiser, no pending filter).  What
is observed is the gate of `evolve --execute --noinput` and the database:
statement trace, file hash, Version / Evolution rows.
"""
import copy

from .. import edits as E, histories, labenv, projlab, seqcase, siglab
from .. import specs as S

ID = 'C12'
LEVEL = 'exploration'
RULE = ('cases = generated (models V0, V1, evolution) with 2-4 mutations of '
        'the clean edit subset, the evolution perturbed by one of: drop, '
        'duplicate, swap two mutations, name a missing field / model, change '
        'an attribute value, remove an initial value, target another model; '
        'the database holds V0 with rows; `evolve --execute --noinput` is '
        'run at V1. Perturbations that still reach V1 are counted as benign '
        '(they must then succeed). non-trivial = the harness-side replay '
        'says the perturbed evolution does not reach V1; distinct = hash of '
        '(history, perturbed mutation texts).')
ASSUMPTIONS = [
    'reachability is decided with the repository\'s own simulation '
    'primitives applied one mutation at a time (that is how the property '
    'defines it); the gate, optimiser and pending-mutation filter are what '
    'is under observation',
    'SQLite file; one fresh interpreter per run',
]
FLOORS = {'quick': {'decoy_runs': 10, 'perturb_bad_update_func': 4, 
                    'nontrivial': 40, 'rejections_checked': 40,
                    'm2m_edit': 5, 'with_migration_app': 10},
          'thorough': {'decoy_runs': 60, 'perturb_bad_update_func': 40, 
                       'nontrivial': 800, 'rejections_checked': 800,
                       'm2m_edit': 100, 'with_migration_app': 200}}
SIZES = {'quick': 96, 'thorough': 1600}
TIMEOUT = {'quick': 170, 'thorough': 1700}
KINDS = ('drop', 'duplicate', 'swap', 'missing_field', 'missing_model',
         'change_value', 'remove_initial', 'other_model')


def eff_seed(seed):
    return seed % 8


def plan(tier, seed):
    es = eff_seed(seed)
    return [{'mode': 'perturb', 'seed': es, 'i': i}
            for i in range(SIZES[tier])]


def worker_setup():
    labenv.setup()


def perturb(rng, edits, spec0):
    """-> (kind, perturbed edit list) or None."""
    edits = copy.deepcopy(edits)
    kinds = list(KINDS)
    rng.shuffle(kinds)
    m2m = [i for i, e in enumerate(edits) if e['op'] == 'add_field' and
           e['fdef']['kind'] == 'ManyToMany']
    if m2m and rng.random() < 0.6:
        edits.insert(m2m[0] + rng.choice([0, 1]),
                     copy.deepcopy(edits[m2m[0]]))
        return 'duplicate', edits
    if any(e.get('new_kind') for e in edits) and rng.random() < 0.6:
        # aim at the type-changing NOT NULL ChangeField
        for e in edits:
            if e.get('new_kind') and e.get('initial') is not None:
                e.pop('initial')
                return 'remove_initial', edits
    for kind in kinds:
        if kind == 'drop' and edits:
            edits.pop(rng.randrange(len(edits)))
            return kind, edits
        if kind == 'duplicate' and edits:
            i = rng.randrange(len(edits))
            edits.insert(i, copy.deepcopy(edits[i]))
            return kind, edits
        if kind == 'swap' and len(edits) >= 2:
            i = rng.randrange(len(edits) - 1)
            edits[i], edits[i + 1] = edits[i + 1], edits[i]
            return kind, edits
        if kind == 'missing_field':
            c = [e for e in edits if e['op'] in ('delete_field',
                                                 'change_field')]
            if c:
                rng.choice(c)['name'] = 'zz_missing'
                return kind, edits
        if kind == 'missing_model':
            c = [e for e in edits if 'model' in e]
            if c:
                rng.choice(c)['model'] = 'ZzMissing'
                return kind, edits
        if kind == 'change_value':
            c = [e for e in edits if e['op'] == 'change_field' and
                 'max_length' in e['attrs']]
            if c:
                e = rng.choice(c)
                e['attrs']['max_length'] = e['attrs']['max_length'] + 7
                return kind, edits
            c = [e for e in edits if e['op'] == 'add_field' and
                 e['fdef'].get('max_length')]
            if c:
                e = rng.choice(c)
                e['fdef']['max_length'] += 7
                return kind, edits
        if kind == 'remove_initial':
            c = [e for e in edits if e.get('initial') is not None and
                 e['op'] in ('add_field', 'change_field')]
            if c:
                rng.choice(c).pop('initial')
                return kind, edits
        if kind == 'other_model':
            c = [e for e in edits if e['op'] in ('add_field',
                                                 'delete_field')]
            others = [m for m in spec0.get('app1', {})]
            if c and len(others) >= 2:
                e = rng.choice(c)
                e['model'] = rng.choice([m for m in others
                                         if m != e['model']])
                return kind, edits
    return None


def to_mut(h, e):
    """Build the mutation against the version whose models let it be
    expressed (type changes restate the attributes of the resulting field)."""
    try:
        return E.to_mutation(h.specs[0], e)
    except Exception:
        if e.get('new_kind'):
            cur = h.specs[0]
            for e2 in h.steps[0]:
                if e2 is e or (e2.get('name') == e.get('name') and
                               e2.get('new_kind')):
                    break
                cur = E.apply_edit(cur, e2)
            return E.to_mutation(cur, e)
        raise


def reaches(psig0, tsig, mutations, app):
    """Harness-side reachability: one mutation at a time, no optimiser."""
    work = psig0.clone()
    for m in mutations:
        err = siglab.simulate_one(work, app, m)
        if err:
            return False, 'sim:' + err['msg'][:80]
    _eq, e1, e2, d1, d2 = siglab.sig_equal(work, tsig)
    if e1 and e2:
        return True, ''
    return False, 'residual:' + (d1 or d2)[:80]


def run_case(desc):
    rng = seqcase.rng_for('C12', desc['seed'], desc['i'])
    h = None
    for _try in range(6):
        h = histories.gen_history(rng, 1, apps=('app1',))
        if len(h.steps[0]) >= 2:
            break
    edits = h.steps[0]
    stats = {'pairs': 1}
    # a second app with a valid pending evolution of its own (the run as a
    # whole is still unreachable when app1's evolution is)
    two = rng.random() < 0.5
    if two and edits and rng.random() < 0.5:
        # app1's evolution is a single mutation: dropping or retargeting it
        # leaves the app with nothing effective to run
        edits = edits[:1]
        h.steps[0] = edits
        h.specs[1] = E.apply_edit(h.specs[0], edits[0])
    # a type-changing ChangeField to NOT NULL (needs an initial value)
    if rng.random() < 0.3:
        cands = [(m, n, fd) for m, ms in h.specs[1].get('app1', {}).items()
                 for n, fd in ms['fields']
                 if fd.get('null') and fd['kind'] in ('Integer', 'Char')
                 and not fd.get('unique')
                 and not any(e.get('name') == n and e.get('model') == m
                             for e in edits)]
        if cands:
            m, n, fd = rng.choice(sorted(cands, key=repr))
            e = {'op': 'change_field', 'app': 'app1', 'model': m, 'name': n,
                 'attrs': {'null': False},
                 'new_kind': 'BigInteger' if fd['kind'] == 'Integer'
                 else 'Text',
                 'initial': 7 if fd['kind'] == 'Integer' else 'x',
                 # null=False spelled out, or left to the reset of the
                 # attributes that a type change implies
                 'explicit_null': rng.random() < 0.6}
            try:
                spec1 = E.apply_edit(h.specs[1], e)
                E.to_mutation(h.specs[1], e)
                edits = edits + [e]
                h.steps[0] = edits
                h.specs[1] = spec1
                stats['type_null_edit'] = 1
            except Exception:
                pass
    # a many-to-many field added by the evolution (its duplicate must be
    # refused like that of any other field)
    if rng.random() < 0.25 and h.specs[1].get('app1'):
        mods = sorted(h.specs[1]['app1'])
        m = rng.choice(mods)
        e = {'op': 'add_field', 'app': 'app1', 'model': m, 'name': 'mm9',
             'fdef': {'kind': 'ManyToMany',
                      'to': 'app1.%s' % rng.choice(mods)}}
        try:
            spec1 = E.apply_edit(h.specs[1], e)
            seqcase._validate_spec(spec1)
            edits = edits + [e]
            h.steps[0] = edits
            h.specs[1] = spec1
            stats['m2m_edit'] = 1
        except Exception:
            pass
    for e in edits:
        # null=False spelled out on some AddFields (legal, redundant)
        if e['op'] == 'add_field' and not e['fdef'].get('null') and \
                e['fdef']['kind'] != 'ManyToMany' and rng.random() < 0.4:
            e['explicit_null'] = True
    p = perturb(rng, edits, h.specs[0])
    key = S.canon([h.specs, desc])
    if p is None or not edits:
        return {'key': key, 'nontrivial': False, 'items': [],
                'stats': {'skipped_no_perturbation': 1}, 'case': None}
    kind, pedits = p
    stats['perturb_' + kind] = 1
    # mutation objects/texts of the perturbed evolution
    try:
        muts = [to_mut(h, e) for e in pedits]
    except Exception:
        return {'key': key, 'nontrivial': False, 'items': [],
                'stats': {'skipped_unbuildable': 1}, 'case': None}
    texts = [str(m) for m in muts]
    c0 = S.build_models(h.specs[0])
    psig0 = S.project_sig(c0, apps_order=['app1'])
    c1 = S.build_models(h.specs[1])
    tsig = S.project_sig(c1, apps_order=['app1'])
    ok, why = reaches(psig0, tsig, muts, 'app1')
    implicit_null = None
    for e in pedits:
        if e['op'] == 'add_field' and not e['fdef'].get('null') and \
                e['fdef']['kind'] != 'ManyToMany' and \
                e.get('initial') is None:
            # "adds a column as non-null without an initial value"
            if ok:
                ok, why = False, 'nonnull_without_initial:'
        if e['op'] == 'change_field' and e.get('new_kind') and \
                e['attrs'].get('null') is False and e.get('initial') is None:
            # "changes a column to non-null without an initial value": to be
            # rejected whatever the simulation says
            implicit_null = not e.get('explicit_null')
            if ok:
                ok, why = False, 'nonnull_without_initial:'
    items = []
    # every third case: the observed database is `other`, next to a
    # fully installed `default` (projlab decoy mode)
    proj = projlab.Project(decoy=desc.get('i', 0) % 3 == 1)
    evo_helpers = ''
    if desc['i'] % 8 == 5:
        # instead of the perturbation: the complete, valid evolution is
        # followed by a data mutation whose update function names a model
        # (or a field) that does not exist - the simulation of that
        # mutation fails, so nothing may be executed
        stats.pop('perturb_' + kind, None)
        kind = 'bad_update_func'
        stats['perturb_' + kind] = 1
        pedits = copy.deepcopy(edits)
        muts = [to_mut(h, e) for e in pedits]
        which = rng.choice(['model', 'field'])
        first_model = sorted(h.specs[0]['app1'])[0] \
            if h.specs[0]['app1'] else 'ZzMissing'
        evo_helpers = (
            "\n\ndef _bad_update(simulation):\n"
            "    simulation.get_%s\n" % (
                "model_sig('ZzMissing')" if which == 'model' else
                "field_sig(%r, 'zz_missing')" % first_model))
        texts = [str(m) for m in muts] + [
            "SQLMutation('touch', ['SELECT 1;'], _bad_update)"]
        ok, why = False, 'sim:update function names a missing %s' % which
        implicit_null = None
    try:
        versions = [h.app_models('app1', 0), h.app_models('app1', 1)]
        proj.write_app('app1', versions, [('e1', texts, {})], nv=[0, 1],
                       evo_helpers=evo_helpers)
        kw0, kw1 = {}, {}
        with_mig = desc['i'] % 5 == 4
        if with_mig:
            # next to app1: an app managed by migrations with one migration
            # applied and one pending (work to do that needs no simulation)
            stats['with_migration_app'] = 1
            proj.write_mig_app('app4', 2)
            kw0 = {'app_versions': {'app4': 1},
                   'migmods': {'app4': 'app4.migs_1'}}
            kw1 = {'app_versions': {'app4': 2},
                   'migmods': {'app4': 'app4.migs_2'}}
        if two:
            stats['two_apps'] = 1
            z0 = {'Z': {'fields': [['v', {'kind': 'Integer'}]], 'meta': {}}}
            z1 = {'Z': {'fields': [['v', {'kind': 'Integer'}],
                                   ['x1', {'kind': 'Integer', 'null': True}]],
                        'meta': {}}}
            proj.write_app('app2', [z0, z1], [('e1', [
                "AddField('Z', 'x1', models.IntegerField, null=True)"], {})],
                nv=[0, 1])
        ev = proj.run('evolve_api', version=0, db='db.sqlite3', **kw0)
        if ev.get('driver_error') or not ev['outcome']['ok']:
            return {'key': key, 'nontrivial': False, 'items': [],
                    'stats': {'skipped_install_failed': 1}, 'case': None}
        proj.insert_rows(seqcase.gen_rows(rng, h.specs[0], max_rows=3))
        sha = proj.sha()
        ev_rows = proj.evolution_rows()
        n_versions = len(proj.version_rows())
        ev = proj.run('evolve_cmd', version=1, db='db.sqlite3', **kw1)
        if ev.get('driver_error'):
            return {'key': key, 'nontrivial': False, 'items': [],
                    'stats': stats, 'case': None,
                    'harness_error': str(ev)[:600]}
        o = ev['outcome']
        mut_sql = [e['sql'] for e in ev['events']
                   if e['kind'] == 'sql' and e.get('mutating') and e['ok']
                   and 'django_migrations' not in e['sql']]
        ctx = {'perturbation': kind, 'why': why.split(':')[0],
               'two_apps': two, 'implicit_null': implicit_null,
               'with_migration_app': with_mig,
               # the (perturbed) evolution holds a type-changing ChangeField
               # that makes a nullable column NOT NULL without saying null=
               'has_notnull_typechange': any(
                   e.get('new_kind') and e['attrs'].get('null') is False
                   for e in pedits),
               'has_implicit_notnull_typechange': any(
                   e.get('new_kind') and e['attrs'].get('null') is False
                   and not e.get('explicit_null') for e in pedits)}
        if ok:
            stats['benign'] = 1
            if not o['ok']:
                items.append(dict(ctx, type='REACHABLE_REJECTED',
                                  exc=o['exc'], msg=o.get('msg', '')[:200]))
        else:
            stats['rejections_checked'] = 1
            ended_at_target = None
            if o['ok']:
                # evidence: where did the accepted run end?
                from .. import dbsnap
                after = ev.get('after') or {}
                fr = proj.run('evolve_api', version=1, db='fresh.db', **kw1)
                same = not dbsnap.diff_schema(
                    dbsnap.strip_rows(proj.snapshot('db.sqlite3')),
                    dbsnap.strip_rows(proj.snapshot('fresh.db'))) \
                    if not fr.get('driver_error') else False
                ended_at_target = bool(after.get('stored_diff_empty') and
                                       after.get('current_diff_empty') and
                                       same)
                ctx['ended_at_target'] = ended_at_target
                if not mut_sql and proj.sha() == sha and ended_at_target:
                    # the stored signature already equals the current
                    # models: the command reports that nothing is required
                    # and never looks at the evolution; nothing was touched
                    stats['no_upgrade_required'] = 1
                else:
                    items.append(dict(ctx, type='UNREACHABLE_EXECUTED',
                                      executed=len(mut_sql)))
            elif o['exc'] != 'CommandError':
                items.append(dict(ctx, type='WRONG_EXCEPTION', exc=o['exc'],
                                  site=o.get('site'),
                                  msg=o.get('msg', '')[:200]))
            if mut_sql:
                items.append(dict(ctx, type='SQL_BEFORE_REJECTION',
                                  first=mut_sql[0][:120], n=len(mut_sql)))
            if proj.sha() != sha:
                items.append(dict(ctx, type='DATABASE_FILE_CHANGED'))
            if proj.evolution_rows() != ev_rows or \
                    len(proj.version_rows()) != n_versions:
                items.append(dict(ctx, type='BOOKKEEPING_CHANGED'))
    finally:
        stats['decoy_runs'] = proj.decoy_runs
        proj.cleanup()
    return {'key': S.canon([h.specs, texts]), 'nontrivial': not ok,
            'items': items, 'stats': stats,
            'case': {'specs': h.specs, 'valid': [str(to_mut(h, e))
                                                  for e in edits],
                     'perturbed': texts, 'two_apps': two,
                'kind': kind, 'reaches': ok, 'why': why}}
