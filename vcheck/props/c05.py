"""C05 - the hinted evolution for a model change fully resolves that change;
a signature has an empty difference with itself/its clone; a == b exactly
when the difference is empty in both directions.

Invariant checked on recorded results of real calls: Diff(old, new).evolution()
is replayed with the real run_simulation on old.clone(); the residual
Diff(result, new) must be empty (ignore_apps=False).  eq/diff agreement is
checked on the generated pairs and on variants of one signature (explicit
defaults, reordered index / constraint / unique_together lists, other
db_table).
"""
import copy
import json

import random

from .. import edits as E, labenv, seqcase, siglab
from .. import specs as S

ID = 'C05'
LEVEL = 'exploration'
RULE = ('cases = pairs (old, new) of generated model sets: new is reached '
        'from old by 1-6 spec edits (added / deleted / re-typed fields, every '
        'tracked attribute alone and combined, unique_together, '
        'index_together, indexes, constraints, deleted models, re-targeted '
        'relations); plus variants of one signature (clone, explicit '
        'defaults, reordered lists, other db_table). The hint is applied with '
        'the real run_simulation. non-trivial = old and new differ in a '
        'tracked attribute (Diff non-empty); distinct = hash of the pair.')
ASSUMPTIONS = [
    'signature level only (no database); <<USER VALUE REQUIRED>> '
    'placeholders are replaced by a concrete initial before simulation, as '
    'the hint demands',
    'db_table_comment is not generated (unsupported on SQLite)',
]
FLOORS = {'quick': {'nontrivial': 300, 'hints_applied': 300,
                    'hint_reuse_checked': 300},
          'thorough': {'nontrivial': 6000, 'hints_applied': 6000,
                       'hint_reuse_checked': 6000}}
SIZES = {'quick': 1500, 'thorough': 30000}

OPS = ['add_field'] * 4 + ['delete_field'] * 3 + ['change_field'] * 6 + \
    ['change_meta'] * 5 + ['delete_model'] + ['retarget'] * 2 + \
    ['readd_field']


def eff_seed(seed):
    return seed % 8


def plan(tier, seed):
    es = eff_seed(seed)
    return [{'mode': 'pair', 'seed': es, 'i': i} for i in range(SIZES[tier])]


def worker_setup():
    labenv.setup()


def gen_pair(rng, comments=False):
    """comments: some models carry a Meta.db_table_comment (kept unchanged:
    ChangeMeta(db_table_comment) cannot be simulated on SQLite)."""
    two = rng.random() < 0.4
    gen = E.SpecGen(rng, apps=('app1', 'app2') if two else ('app1',))
    old = gen.gen_spec()
    if rng.random() < 0.3:
        # legal but unusual: single-field entries in unique_together /
        # index_together
        for a, mods in old.items():
            for m, ms in mods.items():
                cands = [fn for fn, fd in ms['fields']
                         if fd['kind'] != 'ManyToMany']
                if cands and rng.random() < 0.6:
                    prop = rng.choice(['unique_together', 'index_together'])
                    cur = ms.setdefault('meta', {}).setdefault(prop, [])
                    ent = [rng.choice(cands)]
                    if ent not in cur:
                        cur.append(ent)
    if comments:
        crng = random.Random(rng.random())
        for a, mods in old.items():
            for m, ms in mods.items():
                if crng.random() < 0.4:
                    ms.setdefault('meta', {})['db_table_comment'] = \
                        crng.choice(['c1', "it's", 'ü'])
    new = old
    kinds = []
    if rng.random() < 0.06:
        # the only difference: one multi-column index / constraint /
        # together entry lists the same columns in another order
        cands = []
        for a, mods in old.items():
            for m, ms in mods.items():
                cols = [fn for fn, fd in ms['fields']
                        if fd['kind'] not in ('ManyToMany', 'Text')]
                if len(cols) >= 2:
                    cands.append((a, m, cols))
        if cands:
            a, m, cols = rng.choice(cands)
            pair = rng.sample(cols, 2)
            prop = rng.choice(['unique_together', 'index_together',
                               'indexes', 'constraints'])
            meta = old[a][m].setdefault('meta', {})
            cur = meta.setdefault(prop, [])
            if prop.endswith('together'):
                if sorted(pair) in [sorted(x) for x in cur]:
                    cur[:] = [x for x in cur if sorted(x) != sorted(pair)]
                cur.append(pair)
            elif prop == 'indexes':
                cur.append({'fields': pair, 'name': 'ix_reorder'})
            else:
                cur.append({'type': 'unique', 'name': 'uq_reorder',
                            'fields': pair})
            new = S.clone(old)
            ent = new[a][m]['meta'][prop][-1]
            if isinstance(ent, list):
                ent.reverse()
            else:
                ent['fields'] = ent['fields'][::-1]
            try:
                seqcase._validate_spec(old)
                seqcase._validate_spec(new)
                return old, new, ['change_meta:reorder_' + prop]
            except Exception:
                new = old
    n = rng.choice([1, 1, 2, 3, 4, 6])
    tries = 0
    while len(kinds) < n and tries < 40:
        tries += 1
        op = rng.choice(OPS)
        if op == 'retarget':
            cands = [(a, m, fn, fd) for a, mods in new.items()
                     for m, ms in mods.items() for fn, fd in ms['fields']
                     if fd['kind'] in ('ForeignKey', 'ManyToMany')]
            targets = ['%s.%s' % (a, m) for a, mods in new.items()
                       for m in mods]
            if not cands or len(targets) < 2:
                continue
            a, m, fn, fd = rng.choice(cands)
            t = rng.choice([x for x in targets if x != fd['to']])
            nxt = S.clone(new)
            S.get_field(nxt, a, m, fn)['to'] = t
            kind = 'retarget:' + fd['kind']
        elif op == 'readd_field':
            # delete + add of one name with another kind: a re-typed field
            cands = [(a, m, fn, fd) for a, mods in new.items()
                     for m, ms in mods.items() for fn, fd in ms['fields']
                     if fn not in E.meta_field_refs(ms) and
                     fd['kind'] not in S.REL_KINDS]
            if not cands:
                continue
            a, m, fn, fd = rng.choice(cands)
            nfd = E.gen_fdef(rng, new, a, allow_rel=False)
            if nfd['kind'] == fd['kind']:
                continue
            nxt = S.clone(new)
            for f in nxt[a][m]['fields']:
                if f[0] == fn:
                    f[1] = nfd
            kind = 'retype:%s>%s' % (fd['kind'], nfd['kind'])
        else:
            e = gen.candidate_edit(new, ops=[op])
            if e is None:
                continue
            nxt = E.apply_edit(new, e)
            kind = seqcase.op_kinds([e])[0]
        try:
            seqcase._validate_spec(nxt)
        except Exception:
            continue
        new = nxt
        kinds.append(kind)
    return old, new, kinds


def variants(rng, psig):
    """(kind, variant signature, expect_equal) derived from one signature."""
    out = [('clone', psig.clone(), True)]
    v = psig.clone()
    changed = False
    for asig in v.app_sigs:
        for msig in asig.model_sigs:
            for fsig in msig.field_sigs:
                if 'null' not in fsig.field_attrs and rng.random() < 0.5:
                    fsig.field_attrs['null'] = False     # explicit default
                    changed = True
    if changed:
        out.append(('explicit_default', v, True))
    v = psig.clone()
    changed = False
    for asig in v.app_sigs:
        for msig in asig.model_sigs:
            if len(msig.index_sigs) >= 2:
                msig.index_sigs.reverse()
                changed = True
    if changed:
        out.append(('reordered_indexes', v, None))
    v = psig.clone()
    changed = False
    for asig in v.app_sigs:
        for msig in asig.model_sigs:
            if len(msig.constraint_sigs) >= 2:
                msig.constraint_sigs.reverse()
                changed = True
    if changed:
        out.append(('reordered_constraints', v, None))
    v = psig.clone()
    changed = False
    for asig in v.app_sigs:
        for msig in asig.model_sigs:
            if len(msig.unique_together or []) >= 2:
                msig.unique_together = list(reversed(msig.unique_together))
                changed = True
    if changed:
        out.append(('reordered_unique_together', v, None))
    v = psig.clone()
    for asig in v.app_sigs:
        for msig in asig.model_sigs:
            msig.table_name = msig.table_name + '_x'
            out.append(('other_db_table', v, None))
            break
        break
    return out


def eq_vs_diff(a, b):
    """(eq, empty(a->b), empty(b->a)) with the real operators."""
    eq, e1, e2, _d1, _d2 = siglab.sig_equal(a, b)
    return bool(eq), bool(e1), bool(e2)


def _first_difference(a, b, path=''):
    if type(a) is not type(b):
        return '%s: %r vs %r' % (path, a, b)
    if isinstance(a, dict):
        for k in sorted(set(a) | set(b), key=str):
            if a.get(k) != b.get(k):
                return _first_difference(a.get(k), b.get(k),
                                         '%s/%s' % (path, k))
    if isinstance(a, (list, tuple)) and len(a) == len(b):
        for i, (x, y) in enumerate(zip(a, b)):
            if x != y:
                return _first_difference(x, y, '%s[%d]' % (path, i))
    return ('%s: %r vs %r' % (path, a, b))[:300]


def generalise(diff_text):
    import re
    lines = []
    for ln in diff_text.splitlines():
        ln = ln.strip()
        if not ln.startswith(('Property', 'Meta property')):
            ln = re.sub(r"'[^']*'", "'*'", ln)
        ln = re.sub(r'(model|app|application) \S+', r'\1 *', ln)
        if ln not in lines:
            lines.append(ln)
    return ' | '.join(lines)[:200]


def run_case(desc):
    from django_evolution.diff import Diff
    from .c01 import concrete_initials
    rng = seqcase.rng_for('C05', desc['seed'], desc['i'])
    old, new, kinds = gen_pair(rng, comments=True)
    items, stats = [], {'pairs': 1}
    for k in kinds:
        stats.setdefault('edit_kinds', {})
        stats['edit_kinds'][k.split(':')[0]] = \
            stats['edit_kinds'].get(k.split(':')[0], 0) + 1
    ocls = S.build_models(old)
    osig = S.project_sig(ocls, apps_order=list(old))
    ncls = S.build_models(new)           # registry = new models, as in life
    nsig = S.project_sig(ncls, apps_order=list(new))
    nontrivial = False
    try:
        d = Diff(osig, nsig)
        nontrivial = not d.is_empty(ignore_apps=False)
        hinted = d.evolution()
    except Exception as e:
        items.append(siglab.exc_item('HINT_ERROR', e, what='evolution'))
        hinted = None
    if hinted is not None:
        work = osig.clone()
        ok = True
        texts_before = {}
        for app, muts in hinted.items():
            concrete_initials(muts, rng)
            texts_before[app] = [str(m) for m in muts]
        for app, muts in hinted.items():
            for m in muts:
                err = siglab.simulate_one(work, app, m)
                stats['mutations_simulated'] = stats.get(
                    'mutations_simulated', 0) + 1
                if err:
                    err['type'] = 'HINT_SIM_ERROR'
                    err['mutation'] = type(m).__name__
                    err['mutation_text'] = str(m)[:160]
                    items.append(err)
                    ok = False
                    break
            if not ok:
                break
        if ok:
            # the hinted mutations are simulated before they are rendered
            # (evolve --hint) and may be used again: simulating must not
            # change them
            for app, muts in hinted.items():
                now = [str(m) for m in muts]
                if now != texts_before.get(app):
                    items.append({'type': 'HINT_CHANGED_BY_SIMULATION',
                                  'app': app,
                                  'before': str(texts_before.get(app))[:200],
                                  'after': str(now)[:200]})
            work2 = osig.clone()
            for app, muts in hinted.items():
                for m in muts:
                    if siglab.simulate_one(work2, app, m):
                        items.append({'type': 'HINT_SECOND_USE_FAILS',
                                      'mutation': type(m).__name__})
                        break
            else:
                if not Diff(work2, work).is_empty(ignore_apps=False):
                    items.append({'type': 'HINT_SECOND_USE_DIFFERS'})
            stats['hint_reuse_checked'] = 1
        if ok:
            stats['hints_applied'] = 1
            res = Diff(work, nsig)
            res2 = Diff(nsig, work)
            if not res.is_empty(ignore_apps=False) or \
                    not res2.is_empty(ignore_apps=False):
                txt = str(res) if not res.is_empty(ignore_apps=False) \
                    else str(res2)
                items.append({'type': 'HINT_UNRESOLVED',
                              'residual': generalise(txt),
                              'detail': txt[:300]})
    # eq <=> both diffs empty, on the pair and on variants of new
    for tag, a, b in [('pair', osig, nsig)]:
        eq, e1, e2 = eq_vs_diff(a, b)
        stats['eq_checks'] = stats.get('eq_checks', 0) + 1
        if eq != (e1 and e2):
            items.append({'type': 'EQ_DIFF_DISAGREE', 'variant': tag,
                          'eq': eq, 'empty_ab': e1, 'empty_ba': e2})
        # independent witness: both signatures were built by the same code
        # from live models, so their stored form is canonical; an empty
        # difference between two signatures whose stored forms differ means
        # the comparison lost something
        if e1 and e2:
            stats['empty_pairs'] = stats.get('empty_pairs', 0) + 1
            # (the order of the fields / models inside their mappings is
            # not part of the schema: mappings are compared as sets of keys,
            # lists - index columns, together entries - in order)
            sa = json.loads(json.dumps(a.serialize(), sort_keys=True,
                                       default=str))
            sb = json.loads(json.dumps(b.serialize(), sort_keys=True,
                                       default=str))
            if sa != sb:
                items.append({'type': 'DIFF_EMPTY_STORED_FORM_DIFFERS',
                              'detail': _first_difference(sa, sb)})
    eq, e1, e2 = eq_vs_diff(nsig, nsig)
    if not (eq and e1 and e2):
        items.append({'type': 'SELF_DIFF_NONEMPTY', 'variant': 'self',
                      'eq': eq, 'empty_ab': e1, 'empty_ba': e2})
    for tag, v, expect in variants(rng, nsig):
        eq, e1, e2 = eq_vs_diff(nsig, v)
        stats['eq_checks'] = stats.get('eq_checks', 0) + 1
        stats['variant_' + tag] = 1
        if tag == 'clone' and not (eq and e1 and e2):
            items.append({'type': 'SELF_DIFF_NONEMPTY', 'variant': tag,
                          'eq': eq, 'empty_ab': e1, 'empty_ba': e2})
        elif eq != (e1 and e2):
            items.append({'type': 'EQ_DIFF_DISAGREE', 'variant': tag,
                          'eq': eq, 'empty_ab': e1, 'empty_ba': e2})
    retyped, retyped_rel = False, False
    for a, mods in old.items():
        for m, ms in mods.items():
            for fn, fd in ms['fields']:
                nf = S.get_field(new, a, m, fn) if m in new.get(a, {}) \
                    else None
                if nf is not None and nf['kind'] != fd['kind']:
                    retyped = True
                    if nf['kind'] in S.REL_KINDS or fd['kind'] in S.REL_KINDS:
                        retyped_rel = True
    for it in items:
        it['retyped'] = retyped
        it['retyped_relation'] = retyped_rel
        it['edit_kinds'] = sorted(set(k.split(':')[0] + (
            ':' + k.split(':')[1] if k.startswith(('retarget', 'retype'))
            else '') for k in kinds))
    return {'key': S.canon([old, new]), 'nontrivial': bool(nontrivial),
            'items': items, 'stats': stats,
            'case': {'old': old, 'new': new, 'kinds': kinds,
                     'hinted': {a: [str(m) for m in ms]
                                for a, ms in (hinted or {}).items()}}}
