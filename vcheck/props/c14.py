"""C14 - the SQL preview is exactly what an execution would run; output is a
deterministic function of its inputs.

Differential monitoring of real processes: `evolve --sql` (and `--hint`) are
run in fresh interpreters with different PYTHONHASHSEED values against the
same database and must print identical bytes; `evolve --execute` is run on a
copy of that database under the statement trace, and the statements it issues
for the evolutions (between applying_evolution / applied_evolution, through
SQLExecutor.run_sql) must equal, in order and with parameters substituted,
the statements of the preview block of the same app.
"""
import re

from .. import histories, labenv, projlab, seqcase
from .. import specs as S

ID = 'C14'
LEVEL = 'exploration'
RULE = ('cases = generated pending upgrades V0->V1 of one or two apps over '
        'the full mutation space (incl. Meta unique_together / '
        'index_together / indexes / constraints, rebuilds, index changes) on '
        'a database holding V0; preview and hint captured in 5 processes '
        '(PYTHONHASHSEED 0,1,2,3,12345), execution traced on a copy. '
        'non-trivial = the preview holds at least two statements; distinct '
        '= hash of the upgrade.')
ASSUMPTIONS = [
    'SQLite; parameters are rendered the way the preview renders them '
    '(strings quoted with single quotes, quote escaped by a backslash)',
    'model creation, bookkeeping and other apps\' handlers are not part of '
    '"the statements for the same evolutions" and are told apart by the '
    'applying/applied_evolution signal pair and the run_sql bracket, not by '
    'position',
    'upgrades whose execution fails are skipped (C01 matter)',
]
FLOORS = {'quick': {'nontrivial': 8, 'previews_compared': 10,
                    'processes': 80, 'twodb_projects': 4},
          'thorough': {'nontrivial': 120, 'previews_compared': 150,
                       'processes': 1200, 'twodb_projects': 40}}
SIZES = {'quick': 24, 'thorough': 280}
TIMEOUT = {'quick': 170, 'thorough': 1700}
SEEDS = ('0', '1', '2', '3', '12345')
TXN_RE = re.compile(r'^\s*(BEGIN|COMMIT|ROLLBACK|SAVEPOINT|RELEASE SAVEPOINT|'
                    r'PRAGMA foreign_keys|PRAGMA foreign_key_check)\b', re.I)


def eff_seed(seed):
    return seed % 8


TWODB = {'quick': 6, 'thorough': 60}


def plan(tier, seed):
    es = eff_seed(seed)
    return [{'mode': 'core', 'seed': 0, 'i': i} for i in range(len(CORE))] + \
        [{'mode': 'upgrade', 'seed': es, 'i': i}
         for i in range(SIZES[tier])] + \
        [{'mode': 'twodb', 'seed': es, 'i': i} for i in range(TWODB[tier])]


def run_twodb(desc):
    """Two databases holding the same apps at different versions: the
    preview for `--database other` must be computed from what *that*
    database stores."""
    rng = seqcase.rng_for('C14', 'twodb', desc['seed'], desc['i'])
    h = None
    for _try in range(8):
        h = histories.gen_history(rng, 2, apps=('app1',))
        if h.texts[0].get('app1') and h.texts[1].get('app1'):
            break
    key = S.canon([h.specs, 'twodb'])
    items, stats = [], {'twodb_projects': 1, 'processes': 0}
    if not (h.texts[0].get('app1') and h.texts[1].get('app1')):
        return {'key': key, 'nontrivial': False, 'items': [],
                'stats': {'skipped_no_history': 1}, 'case': None}
    proj = projlab.Project()
    try:
        histories.write_project(proj, h, ('app1',))

        def run(action, v, alias, other_file='o.db', hashseed='0'):
            stats['processes'] += 1
            return proj.run(action, version=v, db='d.db', db2=other_file,
                            args={'database': alias}, hashseed=hashseed)
        for alias in ('default', 'other'):
            ev = run('evolve_api', 0, alias)
            if ev.get('driver_error') or not ev['outcome']['ok']:
                return {'key': key, 'nontrivial': False, 'items': [],
                        'stats': {'skipped_install_failed': 1}, 'case': None}
        ev = run('evolve_api', 1, 'default')      # default is one ahead
        if ev.get('driver_error') or not ev['outcome']['ok']:
            return {'key': key, 'nontrivial': False, 'items': [],
                    'stats': {'skipped_install_failed': 1}, 'case': None}
        outs = {}
        for hs in SEEDS[:3]:
            pv = run('sql', 2, 'other', hashseed=hs)
            if pv.get('driver_error') or not pv['outcome']['ok']:
                items.append({'type': 'PREVIEW_FAILED', 'hashseed': hs,
                              'detail': str(pv.get('outcome') or pv)[:300]})
                continue
            outs[hs] = pv['stdout']
        if len(set(outs.values())) > 1:
            items.append({'type': 'PREVIEW_NONDETERMINISTIC',
                          'variants': len(set(outs.values())),
                          'same_multiset': None, 'first_diff': None})
        proj.copy_db('o.db', 'o_exec.db')
        ex = run('evolve_cmd', 2, 'other', other_file='o_exec.db')
        nontrivial = False
        if ex.get('driver_error') or not ex['outcome']['ok']:
            stats['skipped_exec_failed'] = 1
        elif outs:
            pv = parse_preview(outs[SEEDS[0]])
            exb = executed_blocks(ex)
            stats['previews_compared'] = 1
            nontrivial = sum(len(v) for v in pv.values()) >= 2
            for app in sorted(set(pv) | set(exb)):
                p, x = pv.get(app, []), exb.get(app, [])
                stats['statements_compared'] = stats.get(
                    'statements_compared', 0) + max(len(p), len(x))
                if p != x:
                    items.append({
                        'type': 'PREVIEW_DIFFERS_FROM_EXECUTION', 'app': app,
                        'n_preview': len(p), 'n_executed': len(x),
                        'same_multiset': sorted(p) == sorted(x),
                        'preview': (p[:1] or ['<end>'])[0][:160],
                        'executed': (x[:1] or ['<end>'])[0][:160]})
    finally:
        proj.cleanup()
    ops = seqcase.op_kinds(h.steps[0] + h.steps[1])
    for it in items:
        it['ops'] = sorted(set(ops))
        it['has_together'] = False
        it['twodb'] = True
    return {'key': key, 'nontrivial': nontrivial, 'items': items,
            'stats': stats, 'case': {'specs': h.specs, 'texts': h.texts,
                                     'ops': ops, 'twodb': True}}


def _core_spec(meta):
    meta = dict(meta)
    if meta.pop('__two_m2m__', None):
        plain = {'fields': [['v', {'kind': 'Integer'}]], 'meta': {}}
        return {'app1': {
            'T': dict(plain), 'U': {'fields': [['v', {'kind': 'Integer'}]],
                                    'meta': {}},
            'A': {'fields': [['v', {'kind': 'Integer'}],
                             ['tags', {'kind': 'ManyToMany', 'to': 'app1.T'}],
                             ['users', {'kind': 'ManyToMany',
                                        'to': 'app1.U'}],
                             ['more', {'kind': 'ManyToMany',
                                       'to': 'app1.T'}]],
                  'meta': {}}}}
    a = dict({'kind': 'Integer'}, **meta.pop('__a__', {}))
    return {'app1': {'A': {'fields': [
        ['a', a], ['b', {'kind': 'Integer'}],
        ['c', {'kind': 'Char', 'max_length': 20}],
        ['d', {'kind': 'Integer', 'null': True}]], 'meta': meta}}}


# hand-made upgrades replacing several multi-column Meta entries at once (the
# order in which their statements are emitted must not depend on hashing)
CORE = [
    ({'unique_together': [['a', 'b'], ['b', 'c'], ['a', 'c'], ['c', 'd']]},
     [{'op': 'change_meta', 'app': 'app1', 'model': 'A',
       'prop': 'unique_together',
       'value': [['a', 'd'], ['b', 'd'], ['d', 'c'], ['b', 'a']]}]),
    ({'index_together': [['a', 'b'], ['b', 'c'], ['a', 'c'], ['c', 'd']]},
     [{'op': 'change_meta', 'app': 'app1', 'model': 'A',
       'prop': 'index_together',
       'value': [['a', 'd'], ['b', 'd'], ['d', 'c'], ['b', 'a']]}]),
    ({},
     [{'op': 'change_meta', 'app': 'app1', 'model': 'A',
       'prop': 'unique_together',
       'value': [['a', 'b'], ['b', 'c'], ['a', 'c'], ['c', 'd'],
                 ['a', 'd']]},
      {'op': 'change_meta', 'app': 'app1', 'model': 'A',
       'prop': 'index_together',
       'value': [['b', 'a'], ['c', 'b'], ['c', 'a'], ['d', 'c']]}]),
    ({'indexes': [{'fields': ['a'], 'name': 'ix_a'},
                  {'fields': ['b'], 'name': 'ix_b'},
                  {'fields': ['c', 'a'], 'name': 'ix_ca'},
                  {'fields': ['d'], 'name': 'ix_d'}]},
     [{'op': 'change_meta', 'app': 'app1', 'model': 'A', 'prop': 'indexes',
       'value': [{'fields': ['a'], 'name': 'ix_a'},
                 {'fields': ['a', 'b'], 'name': 'ix_ab2'},
                 {'fields': ['b', 'c'], 'name': 'ix_bc2'},
                 {'fields': ['c'], 'name': 'ix_c2'},
                 {'fields': ['d', 'a'], 'name': 'ix_da2'}]}]),
    ({},
     [{'op': 'change_meta', 'app': 'app1', 'model': 'A', 'prop': 'indexes',
       'value': [{'fields': ['a', 'b'], 'name': 'jx_ab'},
                 {'fields': ['b'], 'name': 'jx_b'},
                 {'fields': ['c', 'd'], 'name': 'jx_cd'},
                 {'fields': ['d'], 'name': 'jx_d'}]},
      {'op': 'change_meta', 'app': 'app1', 'model': 'A',
       'prop': 'constraints',
       'value': [{'type': 'unique', 'fields': ['a', 'c'], 'name': 'uq_ac'},
                 {'type': 'unique', 'fields': ['b', 'd'], 'name': 'uq_bd'},
                 {'type': 'check', 'check': ['gte', 'a', 0],
                  'name': 'ck_a'},
                 {'type': 'check', 'check': ['gte', 'b', 0],
                  'name': 'ck_b'}]}]),
    # two plain indexes on one column (the field's own and a Meta index
    # whose name sorts differently); the field's index is dropped
    ({'__a__': {'db_index': True},
      'indexes': [{'fields': ['a'], 'name': 'z_a_lookup'}]},
     [{'op': 'change_field', 'app': 'app1', 'model': 'A', 'name': 'a',
       'attrs': {'db_index': False}}]),
    ({'__a__': {'db_index': True},
      'indexes': [{'fields': ['a'], 'name': 'a_a_lookup'}]},
     [{'op': 'change_field', 'app': 'app1', 'model': 'A', 'name': 'a',
       'attrs': {'db_index': False}}]),
    # field indexes of several columns of one model dropped / created in
    # one upgrade
    ({'__a__': {'db_index': True}},
     [{'op': 'change_field', 'app': 'app1', 'model': 'A', 'name': 'a',
       'attrs': {'db_index': False}},
      {'op': 'change_field', 'app': 'app1', 'model': 'A', 'name': 'b',
       'attrs': {'db_index': True}},
      {'op': 'change_field', 'app': 'app1', 'model': 'A', 'name': 'd',
       'attrs': {'db_index': True}},
      {'op': 'change_field', 'app': 'app1', 'model': 'A', 'name': 'c',
       'attrs': {'db_index': True}}]),
    # a functional index is kept while other Meta.indexes come and go (the
    # evolution spells its expressions as a tuple, as a hint does / as a list)
    ({'indexes': [{'lower': 'c', 'fields': [], 'name': 'ix_lower_c'},
                  {'fields': ['a'], 'name': 'ix_a'}]},
     [{'op': 'change_meta', 'app': 'app1', 'model': 'A', 'prop': 'indexes',
       'value': [{'lower': 'c', 'fields': [], 'name': 'ix_lower_c'},
                 {'fields': ['b'], 'name': 'ix_b'}]}]),
    ({'indexes': [{'lower': 'c', 'fields': [], 'name': 'ix_lower_c'}]},
     [{'op': 'change_meta', 'app': 'app1', 'model': 'A', 'prop': 'indexes',
       'value': [{'lower': 'c', 'fields': [], 'name': 'ix_lower_c',
                  'as_list': True},
                 {'fields': ['b', 'a'], 'name': 'ix_ba'}]}]),
    # three custom field classes of the project are added: the hinted
    # evolution has to import each of them
    ({},
     [{'op': 'add_field', 'app': 'app1', 'model': 'A', 'name': 't%d' % k,
       'fdef': {'kind': kind, 'max_length': 10, 'null': True}}
      for k, kind in enumerate(['TagField', 'CodeField', 'NoteField'])]),
    # a model owning several many-to-many tables is deleted
    ({'__two_m2m__': True},
     [{'op': 'delete_model', 'app': 'app1', 'model': 'A'}]),
]


def core_history(i):
    from .. import edits as E
    meta, edits = CORE[i]
    h = histories.History()
    spec0 = _core_spec(meta)
    h.specs.append(spec0)
    cur = spec0
    texts = []
    for e in edits:
        texts.append(str(E.to_mutation(cur, e)))
        cur = E.apply_edit(cur, e)
    h.specs.append(cur)
    h.steps.append(edits)
    h.texts.append({'app1': texts})
    return h


def worker_setup():
    labenv.setup()


def quote(p):
    if isinstance(p, str):
        return "'%s'" % p.replace("'", r"\'")
    return p


def render(sql, params):
    sql = sql.strip()
    if params:
        try:
            return sql % tuple(quote(p) for p in params)
        except (TypeError, ValueError):
            return sql + ' %% %r' % (params,)
    return sql


def parse_preview(text):
    """{app: [statement, ...]} from the --sql output."""
    blocks, cur = {}, None
    for line in text.splitlines():
        m = re.match(r'-- Evolve application "([^"]+)"', line)
        if m:
            cur = blocks.setdefault(m.group(1), [])
            continue
        if line.startswith('-- ') and cur is None:
            continue
        if not line.strip() or cur is None:
            continue
        if line.startswith('--'):
            continue
        cur.append(line.strip())
    return blocks


def executed_blocks(ev):
    blocks, cur = {}, None
    for e in ev.get('events', []):
        if e['kind'] == 'signal' and e['name'] == 'applying_evolution':
            cur = blocks.setdefault(e.get('app'), [])
        elif e['kind'] == 'signal' and e['name'] == 'applied_evolution':
            cur = None
        elif e['kind'] == 'sql' and cur is not None and e.get('inrun'):
            if TXN_RE.match(e['sql']):
                continue       # transaction control issued by Django
            cur.append(render(e['sql'], e.get('params')))
    return blocks


def run_case(desc):
    if desc['mode'] == 'twodb':
        return run_twodb(desc)
    rng = seqcase.rng_for('C14', desc['seed'], desc['i'])
    two = rng.random() < 0.4 and desc['mode'] != 'core'
    if desc['mode'] == 'core':
        h = core_history(desc['i'])
    else:
        # two apps, one of them also gains a brand-new model that one of
        # its pending evolutions names: created in its final form, every
        # mutation for it is filtered out
        fresh_model = two and rng.random() < 0.5
        h = histories.gen_upgrade(rng, two_apps=two,
                                  with_new_model=fresh_model)
        if fresh_model:
            for a, mods in h.specs[1].items():
                if 'NewModel' in mods:
                    h.texts[0].setdefault(a, []).append(
                        "AddField('NewModel', 'q2', models.CharField, "
                        "max_length=20, null=True)")
                    if not [t for t in h.texts[0][a]
                            if 'NewModel' not in t]:
                        # the app's evolution holds nothing else
                        pass
    forced_fresh = False
    if desc['mode'] != 'core' and desc['i'] % 4 == 0:
        # deterministic share of the pattern above: app1 has real work, the
        # evolution of app2 (processed after it) names nothing but a model
        # that is created in its final form, so all of it is filtered out
        from .. import edits as E
        two = True
        rng2 = seqcase.rng_for('C14f', desc['seed'], desc['i'])
        h2 = histories.gen_upgrade(rng2, two_apps=True, with_new_model=False)
        edits1 = [e for e in h2.steps[0] if e['app'] == 'app1']
        if edits1:
            spec = h2.specs[0]
            texts = []
            for e in edits1:
                texts.append(str(E.to_mutation(spec, e)))
                spec = E.apply_edit(spec, e)
            spec1 = S.clone(spec)
            spec1['app2']['NewModel'] = {'fields': [
                ['q1', {'kind': 'Integer', 'db_index': True}],
                ['q2', {'kind': 'Char', 'max_length': 20, 'null': True}]],
                'meta': {}}
            h2.specs[1] = spec1
            h2.steps[0] = edits1
            h2.texts[0] = {'app1': texts, 'app2': [
                "AddField('NewModel', 'q2', models.CharField, "
                "max_length=20, null=True)"]}
            h = h2
            forced_fresh = True
        else:
            two = len(h.specs[0]) > 1
    apps = ('app1', 'app2') if two else ('app1',)
    key = S.canon([h.specs, h.steps])
    items, stats = [], {'upgrades': 1, 'processes': 0,
                        'filtered_out_second_app': int(forced_fresh)}
    proj = projlab.Project()
    hintp = projlab.Project()
    try:
        deps = None
        if two and h.texts[0].get('app1') and h.texts[0].get('app2') and \
                rng.random() < 0.5 and not forced_fresh:
            # a declared order between the two apps' evolutions that differs
            # from the order of INSTALLED_APPS
            deps = {'app1': {'e1': {'AFTER_EVOLUTIONS': [('app2', 'e1')]}}}
            stats['cross_app_dependency'] = 1
        histories.write_project(proj, h, apps, deps=deps)
        ev = proj.run('evolve_api', version=0, db='base.db')
        stats['processes'] += 1
        if ev.get('driver_error') or not ev['outcome']['ok']:
            return {'key': key, 'nontrivial': False, 'items': [],
                    'stats': {'skipped_install_failed': 1}, 'case': None}
        proj.insert_rows(seqcase.gen_rows(rng, h.specs[0], max_rows=2),
                         'base.db')
        # ---- execution on a copy
        proj.copy_db('base.db', 'exec.db')
        ex = proj.run('evolve_cmd', version=1, db='exec.db')
        stats['processes'] += 1
        if ex.get('driver_error'):
            return {'key': key, 'nontrivial': False, 'items': [],
                    'stats': {'skipped_exec_failed': 1}, 'case': None}
        # an execution that fails (C01's matter) is still compared with the
        # preview as far as it got: what it ran must be a prefix of what the
        # preview listed for that app
        exec_failed = not ex['outcome']['ok']
        if exec_failed:
            stats['exec_failed_prefix_compared'] = 1
        # ---- previews under different hash seeds
        outs = {}
        sha = proj.sha('base.db')
        for hs in SEEDS:
            pv = proj.run('sql', version=1, db='base.db', hashseed=hs)
            stats['processes'] += 1
            if exec_failed and not pv.get('driver_error') and \
                    not pv['outcome']['ok']:
                # preview and execution are refused alike (preparation)
                stats['preview_and_execution_both_fail'] = 1
                continue
            if pv.get('driver_error') or not pv['outcome']['ok']:
                items.append({'type': 'PREVIEW_FAILED', 'hashseed': hs,
                              'detail': str(pv.get('outcome') or pv)[:300]})
                continue
            outs[hs] = pv['stdout']
        if proj.sha('base.db') != sha:
            items.append({'type': 'PREVIEW_CHANGED_DATABASE'})
        distinct = sorted(set(outs.values()))
        stats['preview_outputs'] = len(outs)
        if len(distinct) > 1:
            a, b = distinct[0].splitlines(), distinct[1].splitlines()
            k = 0
            while k < min(len(a), len(b)) and a[k] == b[k]:
                k += 1
            items.append({'type': 'PREVIEW_NONDETERMINISTIC',
                          'variants': len(distinct),
                          'first_diff': [(a[k:k + 1] or [''])[0][:140],
                                         (b[k:k + 1] or [''])[0][:140]],
                          'same_multiset': sorted(a) == sorted(b)})
        # ---- preview == execution
        nontrivial = False
        if outs:
            pv = parse_preview(outs[SEEDS[0]])
            exb = executed_blocks(ex)
            stats['previews_compared'] = 1
            nontrivial = sum(len(v) for v in pv.values()) >= 2
            # order of the per-app blocks
            p_order = [a for a in pv if pv[a]]
            x_order = [a for a in exb if exb[a]]
            if sorted(p_order) == sorted(x_order) and p_order != x_order:
                items.append({'type': 'PREVIEW_APP_ORDER_DIFFERS',
                              'preview': p_order, 'executed': x_order,
                              'declared_dependency': bool(deps)})
            for app in sorted(set(pv) | set(exb)):
                p, x = pv.get(app, []), exb.get(app, [])
                if exec_failed:
                    p = p[:len(x)]
                stats['statements_compared'] = stats.get(
                    'statements_compared', 0) + max(len(p), len(x))
                if p != x:
                    k = 0
                    while k < min(len(p), len(x)) and p[k] == x[k]:
                        k += 1
                    items.append({
                        'type': 'PREVIEW_DIFFERS_FROM_EXECUTION', 'app': app,
                        'n_preview': len(p), 'n_executed': len(x),
                        'same_multiset': sorted(p) == sorted(x),
                        'preview': (p[k:k + 1] or ['<end>'])[0][:160],
                        'executed': (x[k:k + 1] or ['<end>'])[0][:160]})
        # ---- hint determinism (no evolution files visible)
        for app in apps:
            versions = [h.app_models(app, v) for v in (0, 1)]
            hintp.write_app(app, versions, [], nv=[0, 0])
        import shutil
        shutil.copyfile(proj.path('base.db'), hintp.path('base.db'))
        houts = {}
        for hs in SEEDS[:3]:
            hv = hintp.run('hint', version=1, db='base.db', hashseed=hs)
            stats['processes'] += 1
            if not hv.get('driver_error'):
                houts[hs] = hv.get('stdout', '') + '|' + str(
                    hv['outcome'].get('msg', ''))
        if len(set(houts.values())) > 1:
            v = sorted(set(houts.values()))
            items.append({'type': 'HINT_NONDETERMINISTIC',
                          'variants': len(v),
                          'same_multiset': sorted(v[0].splitlines()) ==
                          sorted(v[1].splitlines())})
        stats['hint_outputs'] = len(houts)
    finally:
        proj.cleanup()
        hintp.cleanup()
    ops = seqcase.op_kinds(h.steps[0])
    for it in items:
        it['ops'] = sorted(set(ops))
        it['has_together'] = any('unique_together' in o or
                                 'index_together' in o for o in ops)
    return {'key': key, 'nontrivial': nontrivial, 'items': items,
            'stats': stats, 'case': {'specs': h.specs, 'texts': h.texts,
                                     'ops': ops}}
