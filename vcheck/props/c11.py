"""C11 - renames and deletions keep every cross-reference consistent.

Invariant at a hook: BaseMutation.run_simulation is wrapped; after every real
simulation of a sequence the whole ProjectSignature is walked and every
FieldSignature.related_model must name an (app, model) that exists in the
signature, unless that model was explicitly deleted earlier in the sequence;
after RenameModel / RenameAppLabel no reference to the old identity may
remain.  Database side (after executing the SQL): every foreign key points at
an existing table/column, equals what Django creates for the evolved models,
and PRAGMA foreign_key_check is empty.
"""
from .. import dbsnap, edits as E, labenv, oracle, seqcase, siglab
from .. import specs as S

ID = 'C11'
LEVEL = 'exploration'
RULE = ('cases = relation-heavy model sets (2 apps, FK/O2O/M2M incl. cross-'
        'app, self references, model names that are prefixes of each other) '
        'with rows, x random walks of simulation-valid RenameModel, '
        'RenameAppLabel (with and without model_names), RenameField, '
        'DeleteField, DeleteModel, DeleteApplication, AddField(relation). '
        'The signature walker runs inside the wrapped run_simulation after '
        'every mutation; the database is checked after execution. '
        'non-trivial = the sequence contains a rename or deletion and the '
        'start signature holds at least one relation; distinct = hash of '
        '(start spec, edits).')
ASSUMPTIONS = [
    'SQLite backend; mutations executed one per AppMutator',
    'DeleteModel/DeleteApplication are only generated for models no other '
    'remaining model refers to (a dangling target model set cannot be '
    'loaded by Django)',
]
FLOORS = {'quick': {'reused_label_cases': 20, 'referrer_on_migrations_cases': 2, 
                    'nontrivial': 60, 'sig_walks': 300},
          'thorough': {'reused_label_cases': 200, 'referrer_on_migrations_cases': 20, 
                       'nontrivial': 600, 'sig_walks': 3000}}
SIZES = {'quick': 500, 'thorough': 8000}

KINDS = ('Integer', 'Char', 'ForeignKey', 'ForeignKey', 'OneToOne',
         'ManyToMany', 'ManyToMany')
OPS = ['rename_model'] * 5 + ['rename_app'] * 3 + ['rename_field'] * 4 + \
    ['delete_field'] * 3 + ['delete_model'] * 2 + ['delete_app'] + \
    ['add_field'] * 3


def eff_seed(seed):
    return seed % 8


def plan(tier, seed):
    es = eff_seed(seed)
    return [{'mode': 'walk', 'seed': es, 'i': i}
            for i in range(SIZES[tier])] + \
        [{'mode': 'pk', 'i': i} for i in range(len(pk_cases()))]


# ---------------------------------------------------- declared primary keys

PK_VARIANTS = [
    ('code', {'kind': 'Integer', 'primary_key': True}),
    ('code', {'kind': 'Integer', 'primary_key': True, 'db_column': 'pkcol'}),
    ('code', {'kind': 'Char', 'max_length': 10, 'primary_key': True}),
    ('code', {'kind': 'Char', 'max_length': 10, 'primary_key': True,
              'db_column': 'pkcol'}),
]
# how the other models refer to the parent app1.A
PK_REFERRERS = ['fk', 'fk_other_app', 'o2o', 'm2m', 'self_fk', 'fk_dbcol']
# what happens after the start state (names resolved in _pk_case)
PK_SEQUENCES = [
    ['rebuild_child'],
    ['rename_pk'],
    ['rename_pk', 'rebuild_child'],
    ['rename_pk', 'add_child_fk'],
    ['rename_pk_dbcol', 'rebuild_child'],
    ['rename_parent', 'rebuild_child'],
    ['add_child_fk'],
    ['rebuild_parent'],
    ['rename_pk', 'rebuild_parent', 'rebuild_child'],
]


def pk_cases():
    return [(v, r, q) for v in range(len(PK_VARIANTS))
            for r in PK_REFERRERS for q in range(len(PK_SEQUENCES))]


def _pk_case(i):
    v, ref, q = pk_cases()[i]
    pkname, pkdef = PK_VARIANTS[v]
    pkdef = dict(pkdef)
    char = pkdef['kind'] == 'Char'
    val = (lambda n: 'k%d' % n) if char else (lambda n: 10 + n)
    a_fields = [[pkname, pkdef], ['x', {'kind': 'Integer'}],
                ['y', {'kind': 'Integer', 'null': True}]]
    b_fields = [['x', {'kind': 'Integer'}],
                ['y', {'kind': 'Integer', 'null': True}]]
    child_app = 'app2' if ref == 'fk_other_app' else 'app1'
    rel = {'fk': {'kind': 'ForeignKey', 'to': 'app1.A'},
           'fk_other_app': {'kind': 'ForeignKey', 'to': 'app1.A'},
           'fk_dbcol': {'kind': 'ForeignKey', 'to': 'app1.A',
                        'db_column': 'parent_ref', 'null': True},
           'o2o': {'kind': 'OneToOne', 'to': 'app1.A'},
           'm2m': {'kind': 'ManyToMany', 'to': 'app1.A'},
           'self_fk': None}[ref]
    if ref == 'self_fk':
        a_fields.append(['up', {'kind': 'ForeignKey', 'to': 'app1.A',
                                'null': True}])
        child_app, child, relname = 'app1', 'A', 'up'
    else:
        b_fields.insert(0, ['a', rel])
        child, relname = 'B', 'a'
    spec0 = {'app1': {'A': {'fields': a_fields}}, 'app2': {}}
    if ref != 'self_fk':
        spec0[child_app]['B'] = {'fields': b_fields}
    pkcol = pkdef.get('db_column') or pkname
    rows = {'app1_a': [dict({pkcol: val(1), 'x': 1, 'y': None}),
                       dict({pkcol: val(2), 'x': 2, 'y': 5})]}
    if ref == 'self_fk':
        rows['app1_a'][1]['up_id'] = val(1)
    elif ref == 'm2m':
        rows['app1_b'] = [{'id': 1, 'x': 1, 'y': None}]
        rows['app1_b_a'] = [{'id': 1, 'b_id': 1, 'a_id': val(2)}]
    else:
        col = rel.get('db_column') or 'a_id'
        rows['%s_b' % child_app] = [{'id': 1, col: val(2), 'x': 1,
                                     'y': None}]
    edits = []
    parent = 'A'
    pk_now = pkname
    for step in PK_SEQUENCES[q]:
        if step == 'rebuild_child':
            edits.append({'op': 'change_field', 'app': child_app,
                          'model': child if child != 'A' else parent,
                          'name': 'y', 'attrs': {'null': False},
                          'initial': 3})
        elif step == 'rebuild_parent':
            edits.append({'op': 'delete_field', 'app': 'app1',
                          'model': parent, 'name': 'x'})
        elif step == 'rename_pk':
            e = {'op': 'rename_field', 'app': 'app1', 'model': parent,
                 'old': pk_now, 'new': 'key'}
            if pkdef.get('db_column'):
                e['db_column'] = pkdef['db_column']
            edits.append(e)
            pk_now = 'key'
        elif step == 'rename_pk_dbcol':
            edits.append({'op': 'rename_field', 'app': 'app1',
                          'model': parent, 'old': pk_now, 'new': 'key',
                          'db_column': 'newpk'})
            pk_now = 'key'
        elif step == 'rename_parent':
            edits.append({'op': 'rename_model', 'app': 'app1', 'old': parent,
                          'new': 'P', 'db_table': 'app1_p'})
            parent = 'P'
        elif step == 'add_child_fk':
            edits.append({'op': 'add_field', 'app': child_app,
                          'model': child if child != 'A' else parent,
                          'name': 'extra',
                          'fdef': {'kind': 'ForeignKey',
                                   'to': 'app1.%s' % parent, 'null': True}})
    return {'spec0': spec0, 'rows': rows, 'edits': edits, 'pk_case': {
        'pk': PK_VARIANTS[v][1], 'referrer': ref,
        'sequence': PK_SEQUENCES[q]}}


def worker_setup():
    labenv.setup()


def build_case(desc):
    if desc.get('mode') == 'explicit':
        return desc['case']
    if desc.get('mode') == 'pk':
        return _pk_case(desc['i'])
    rng = seqcase.rng_for('C11', desc['seed'], desc['i'])
    gen = E.SpecGen(rng, apps=('app1', 'app2'), kinds=KINDS,
                    allow_meta=False, rows=True, max_models=3)
    spec0 = gen.gen_spec(rng.randint(2, 3))
    classes = S.build_models(spec0)
    psig0 = S.project_sig(classes, apps_order=list(spec0))
    rows = seqcase.gen_rows(rng, spec0, max_rows=3)
    length = rng.choice([1, 2, 2, 3, 3, 4, 5])
    edits, _specs, _rej = seqcase.gen_walk(rng, gen, spec0, length, psig0,
                                           ops=OPS)
    return {'spec0': spec0, 'rows': rows, 'edits': edits}


class SigWalker(object):
    """Wraps BaseMutation.run_simulation; checks the reference invariant
    after every call on the signature that was simulated."""

    def __init__(self):
        self.walks = 0
        self.refs_checked = 0
        self.items = []
        self.deleted = set()       # (app, model) explicitly deleted
        self.forbidden = set()     # old identities after renames
        self._orig = None

    def __enter__(self):
        from django_evolution.mutations.base import BaseMutation
        w = self
        self._orig = BaseMutation.run_simulation

        def wrapped(mutation, **kwargs):
            r = w._orig(mutation, **kwargs)
            w.walk(kwargs.get('project_sig'), str(mutation)[:80])
            return r
        BaseMutation.run_simulation = wrapped
        return self

    def __exit__(self, *a):
        from django_evolution.mutations.base import BaseMutation
        BaseMutation.run_simulation = self._orig

    def walk(self, psig, where):
        if psig is None:
            return
        self.walks += 1
        have = set()
        for asig in psig.app_sigs:
            for msig in asig.model_sigs:
                have.add((asig.app_id, msig.model_name))
        for asig in psig.app_sigs:
            for msig in asig.model_sigs:
                for fsig in msig.field_sigs:
                    rm = fsig.related_model
                    if not rm:
                        continue
                    self.refs_checked += 1
                    app, model = rm.split('.', 1)
                    if (app, model) in self.forbidden and \
                            (app, model) not in have:
                        self.items.append({
                            'type': 'STALE_REFERENCE', 'after': where,
                            'holder': '%s.%s.%s' % (asig.app_id,
                                                    msig.model_name,
                                                    fsig.field_name),
                            'ref': rm})
                    elif (app, model) not in have and \
                            (app, model) not in self.deleted:
                        self.items.append({
                            'type': 'DANGLING_REFERENCE', 'after': where,
                            'holder': '%s.%s.%s' % (asig.app_id,
                                                    msig.model_name,
                                                    fsig.field_name),
                            'ref': rm})


def run_case(desc):
    case = build_case(desc)
    spec0, edits, rows = case['spec0'], case['edits'], case['rows']
    lab = siglab.Lab('default')
    lab.start(spec0, rows)
    reused = False
    if desc.get('mode') == 'walk' and desc['i'] % 6 == 0 and \
            list(spec0)[:2] == ['app1', 'app2'] and \
            not any(e['op'] == 'rename_app' for e in edits):
        # a reused label: app1 lives in a package called "app2" (its legacy
        # label) while another app carries the label app2.  Looking an app
        # up by its own label must still find that app first.
        lab.psig.get_app_sig('app1').legacy_app_label = 'app2'
        reused = True
    on_migrations = False
    if desc.get('mode') == 'walk' and not reused and desc['i'] % 2 == 1 \
            and edits and all(e['app'] == 'app1' and e['op'] != 'rename_app'
                              for e in edits) and any(
                (f.get('to') or '').startswith('app1.')
                for ms in spec0.get('app2', {}).values()
                for _n, f in ms['fields']):
        # app2 has been handed over to Django migrations (its stored
        # signature says so) and refers to models of app1, which keeps
        # evolving: its references must be rewritten all the same
        from django_evolution.consts import UpgradeMethod
        lab.psig.get_app_sig('app2').upgrade_method = \
            UpgradeMethod.MIGRATIONS
        on_migrations = True
    history = [spec0]
    for e in edits:
        history.append(E.apply_edit(history[-1], e))
    target = history[-1]
    S.build_models(target)
    items, traces = [], []
    stats = {'mutations': 0}
    ok = True
    walker = SigWalker()
    with walker:
        for i, e in enumerate(edits):
            m = E.to_mutation(history[i], e)
            stats['mutations'] += 1
            # what the sequence explicitly deletes / renames, for the walker
            if e['op'] == 'delete_model':
                walker.deleted.add((e['app'], e['model']))
            elif e['op'] == 'delete_app':
                walker.deleted.update((e['app'], m2) for m2 in
                                      history[i][e['app']])
            n_before = len(walker.items)
            if e['op'] == 'rename_model':
                walker.forbidden.add((e['app'], e['old']))
                walker.forbidden.discard((e['app'], e['new']))
            elif e['op'] == 'rename_app':
                moved = e.get('model_names') or list(history[i][e['app']])
                walker.forbidden.update((e['app'], m2) for m2 in moved)
                for m2 in moved:
                    walker.forbidden.discard((e['new_app'], m2))
            r = lab.evolve(e['app'], [m], optimise=True)
            traces.append(r['trace'])
            for it in walker.items[n_before:]:
                it['op'] = e['op']
                it['partial'] = e.get('model_names') is not None
            if not r['ok']:
                r['error'].update({'mutation': str(m), 'step': i,
                                   'op': seqcase.op_kinds([e])[0],
                                   'rebuilds_in_batch':
                                   len(r['trace'].rebuilds())})
                items.append(r['error'])
                ok = False
                break
    seen = set()
    for it in walker.items:
        k = (it['type'], it['holder'], it['ref'])
        if k not in seen:
            seen.add(k)
            items.append(it)
    stats['sig_walks'] = walker.walks
    stats['reused_label_cases'] = int(reused)
    stats['referrer_on_migrations_cases'] = int(on_migrations)
    stats['refs_checked'] = walker.refs_checked
    if ok:
        got = lab.snapshot()
        stats['db_checked'] = 1
        # every FK target must exist
        for t, ent in got.items():
            for col, tt, tc in ent['fks']:
                stats['fks_checked'] = stats.get('fks_checked', 0) + 1
                if tt not in got:
                    items.append({'type': 'FK_TARGET_TABLE_MISSING',
                                  'table': t, 'fk': [col, tt, tc]})
                elif tc not in got[tt]['columns']:
                    items.append({'type': 'FK_TARGET_COLUMN_MISSING',
                                  'table': t, 'fk': [col, tt, tc]})
        try:
            for row in lab.fk_check():
                items.append({'type': 'FK_CHECK_FAILED', 'table': row[0],
                              'rowid': row[1], 'parent': row[2]})
        except Exception as e:
            # SQLite refuses the check itself when a REFERENCES clause names
            # a column that is not the parent's primary key / a unique column
            items.append({'type': 'FK_CHECK_ERROR', 'msg': str(e)[:200]})
        _cls, fresh = siglab.fresh_snapshot(target, 'fresh')
        sitems = [it for it in dbsnap.diff_schema(dbsnap.strip_rows(got),
                                                  fresh)
                  if it['type'] in ('MISSING_FK', 'EXTRA_FK',
                                    'MISSING_TABLE', 'EXTRA_TABLE')]
        oracle.attribute(sitems, target, history,
                         siglab.rebuilt_lineage(traces))
        items.extend(sitems)
    oracle.add_evidence(items, edits, history)
    for it in items:
        it['batched'] = False
    has_rel = any(f.get('to') for mods in spec0.values()
                  for ms in mods.values() for _n, f in ms['fields'])
    nontrivial = has_rel and any(e['op'] in (
        'rename_model', 'rename_app', 'rename_field', 'delete_field',
        'delete_model', 'delete_app') for e in edits)
    stats['op_kinds'] = {}
    for k in seqcase.op_kinds(edits):
        stats['op_kinds'][k] = stats['op_kinds'].get(k, 0) + 1
    return {'key': S.canon([spec0, edits]), 'nontrivial': bool(nontrivial),
            'items': items, 'stats': stats,
            'case': dict(case, ops=seqcase.op_kinds(edits))}
