"""C04 - all upgrade paths converge: fresh install, stepwise, direct.

Differential monitoring across real executions of generated on-disk projects:
for a history V0..Vn the database is brought to Vn by a fresh install, by one
direct upgrade from Vi and version by version from Vi, through the Evolver
API, `evolve --execute` and the replaced `migrate`.  Normalised schema, rows
(against the reference row model), recorded evolution labels and the stored
signature must agree, and a further run must be a no-op (no mutating
statement, file hash unchanged, nothing required).
"""
from .. import dbsnap, histories, labenv, oracle, projlab, refrows, seqcase
from .. import specs as S

ID = 'C04'
LEVEL = 'exploration'
RULE = ('cases = generated history V0..Vn (n <= 3 quick / 4 thorough) of one '
        'or two apps, each step an evolution of 1-4 mutations from the clean '
        'edit subset (AddField, DeleteField, ChangeField null/max_length/'
        'decimal, RenameField, DeleteModel), stored in the app SEQUENCE; rows '
        'inserted at the start version. Paths: fresh@n, direct(i->n), '
        'stepwise(i->..->n) for a start version i (quick: one random i; '
        'thorough: every i), each driven through a randomly chosen driver '
        '(Evolver API / evolve --execute / migrate). non-trivial = the '
        'history has >= 2 versions whose schemas differ; distinct = hash of '
        'the history.')
ASSUMPTIONS = [
    'SQLite files, one fresh interpreter per step',
    'history edits come from the clean subset so that known schema-lowering '
    'and optimiser findings (C01/C03) do not mask path convergence; the '
    'full mutation space is covered by C01-C03',
]
FLOORS = {'quick': {'decoy_runs': 20, 
                    'nontrivial': 10, 'paths_compared': 30,
                    'noop_reruns': 20},
          'thorough': {'decoy_runs': 100, 
                       'nontrivial': 120, 'paths_compared': 400,
                       'noop_reruns': 300}}
SIZES = {'quick': 24, 'thorough': 240}
TIMEOUT = {'quick': 170, 'thorough': 1700}
DRIVERS = ('evolve_api', 'evolve_cmd', 'migrate_cmd')


def eff_seed(seed):
    return seed % 8


# hand-made histories (outside the clean subset on purpose): a field is added
# nullable in one version and made NOT NULL with an initial value in the next,
# so that a direct upgrade rolls the ChangeField into the AddField.  Truthy
# and falsy initial values.
CORE = [('Integer', 0), ('Integer', 5), ('Char', ''), ('Char', 'x'),
        ('Boolean', False), ('Boolean', True),
        # a data evolution shipped as an .sql file between two Python ones
        ('sqlfile', None)]


def core_history(i):
    from .. import edits as E
    kind, initial = CORE[i]
    fdef = {'kind': kind, 'null': True}
    if kind == 'Char':
        fdef['max_length'] = 20
    steps = [
        [{'op': 'add_field', 'app': 'app1', 'model': 'A', 'name': 'g1',
          'fdef': fdef}],
        [{'op': 'change_field', 'app': 'app1', 'model': 'A', 'name': 'g1',
          'attrs': {'null': False}, 'initial': initial},
         {'op': 'add_field', 'app': 'app1', 'model': 'A', 'name': 'g2',
          'fdef': {'kind': 'Integer', 'null': True}}],
    ]
    if kind == 'sqlfile':
        steps = [
            [{'op': 'add_field', 'app': 'app1', 'model': 'A', 'name': 'g1',
              'fdef': {'kind': 'Integer', 'null': True}}],
            {'sqlfile': 'UPDATE "app1_a" SET "v" = "v";\n'},
            [{'op': 'add_field', 'app': 'app1', 'model': 'A', 'name': 'g2',
              'fdef': {'kind': 'Integer', 'null': True}}],
        ]
    h = histories.History()
    cur = {'app1': {'A': {'fields': [['v', {'kind': 'Integer'}]],
                          'meta': {}}}}
    h.specs.append(cur)
    for edits in steps:
        if isinstance(edits, dict):
            h.specs.append(cur)
            h.steps.append([])
            h.texts.append({'app1': edits})
            continue
        texts = []
        for e in edits:
            texts.append(str(E.to_mutation(cur, e)))
            cur = E.apply_edit(cur, e)
        h.specs.append(cur)
        h.steps.append(edits)
        h.texts.append({'app1': texts})
    return h


def plan(tier, seed):
    es = eff_seed(seed)
    return [{'mode': 'core', 'seed': 0, 'i': i, 'tier': 'thorough'}
            for i in range(len(CORE))] + \
        [{'mode': 'history', 'seed': es, 'i': i, 'tier': tier}
         for i in range(SIZES[tier])]


def worker_setup():
    labenv.setup()


def step_items(ev, where):
    items = []
    if ev.get('driver_error'):
        items.append({'type': 'DRIVER_ERROR', 'where': where,
                      'detail': str(ev)[:400]})
    elif not ev['outcome']['ok']:
        o = ev['outcome']
        items.append({'type': 'RUN_FAILED', 'where': where, 'exc': o['exc'],
                      'site': o.get('site'), 'msg': o.get('msg', '')[:300]})
    return items


def mutating_between_marks(ev):
    on = False
    out = []
    for e in ev.get('events', []):
        if e['kind'] == 'mark' and e['what'] == 'evolve_start':
            on = True
        elif e['kind'] == 'mark' and e['what'] == 'evolve_end':
            on = False
        elif on and e['kind'] == 'sql' and e.get('mutating') and e.get('ok'):
            out.append(e['sql'])
    return out


def run_case(desc):
    rng = seqcase.rng_for('C04', desc['seed'], desc['i'])
    two = rng.random() < 0.4
    apps = ('app1', 'app2') if two else ('app1',)
    nmax = 3 if desc.get('tier') == 'quick' else 4
    n = rng.randint(2, nmax)
    if desc.get('mode') == 'core':
        h = core_history(desc['i'])
        apps, n = ('app1',), len(h.specs) - 1
    else:
        h = histories.gen_history(rng, n, apps=apps)
    # every third case: the observed database is `other`, next to a
    # fully installed `default` (projlab decoy mode)
    proj = projlab.Project(decoy=desc.get('i', 0) % 3 == 1)
    items, stats = [], {'histories': 1, 'steps': 0}
    try:
        labels_at = histories.write_project(proj, h, apps)
        want_labels = histories.expected_labels(labels_at, n)
        finals = {}

        def run(db, v, driver):
            stats['steps'] += 1
            stats['driver_' + driver] = stats.get('driver_' + driver, 0) + 1
            return proj.run(driver, version=v, db=db)

        # fresh install at Vn
        ev = run('fresh.db', n, rng.choice(DRIVERS))
        items += step_items(ev, 'fresh@%d' % n)
        finals['fresh'] = ('fresh.db', ev)
        starts = list(range(n)) if desc.get('tier') == 'thorough' \
            else [rng.randrange(n)]
        base_rows = {}
        for i in starts:
            base = 'base%d.db' % i
            ev = run(base, i, rng.choice(DRIVERS))
            items += step_items(ev, 'install@%d' % i)
            rows = seqcase.gen_rows(rng, h.specs[i], max_rows=4)
            proj.insert_rows(rows, base)
            snap_i = proj.snapshot(base)
            base_rows[i] = {t: [dict(r) for r in e['rows']]
                            for t, e in snap_i.items()}
            # direct
            d = 'direct%d.db' % i
            proj.copy_db(base, d)
            ev = run(d, n, rng.choice(DRIVERS))
            items += step_items(ev, 'direct %d->%d' % (i, n))
            finals['direct%d' % i] = (d, ev)
            # stepwise
            s = 'step%d.db' % i
            proj.copy_db(base, s)
            for v in range(i + 1, n + 1):
                ev = run(s, v, rng.choice(DRIVERS))
                items += step_items(ev, 'stepwise %d->%d at %d' % (i, n, v))
            finals['step%d' % i] = (s, ev)
        # ---- compare the final states
        ref_name = 'fresh'
        ref_snap = proj.snapshot(finals[ref_name][0])
        for name, (db, ev) in finals.items():
            snap = proj.snapshot(db)
            stats['paths_compared'] = stats.get('paths_compared', 0) + 1
            if name != ref_name:
                for it in dbsnap.diff_schema(dbsnap.strip_rows(snap),
                                             dbsnap.strip_rows(ref_snap)):
                    it['path'] = name
                    it['against'] = ref_name
                    items.append(it)
            labels = set((a, l) for a, l, _v in proj.evolution_rows(db)
                         if a in apps)
            if labels != want_labels:
                start = int(name.replace('direct', '').replace('step', '')) \
                    if name != 'fresh' else None
                miss = sorted(want_labels - labels)
                # evidence: the models of the app are the same at the start
                # version and at Vn (the pending evolutions cancel out)
                net_noop = start is not None and bool(miss) and all(
                    S.canon(h.app_models(a, start)) ==
                    S.canon(h.app_models(a, n)) for a, _l in miss)
                # evidence: every missing label is an evolution whose own
                # mutations cancel out (the models of its app are the same
                # before and after the version that introduced it)
                def _own_noop(a, l):
                    k = int(l[1:])
                    v = next((v for v in range(1, n + 1)
                              if labels_at[a][v] >= k), None)
                    return v is not None and S.canon(
                        h.app_models(a, v - 1)) == S.canon(
                        h.app_models(a, v))
                items.append({'type': 'LABELS_DIFFER', 'path': name,
                              'kind': name.rstrip('0123456789'),
                              'missing': miss, 'net_noop': net_noop,
                              'missing_are_noop_evolutions': bool(miss) and
                              all(_own_noop(a, l) for a, l in miss),
                              'extra': sorted(labels - want_labels)})
            rows_ = proj.evolution_rows(db)
            seen = set()
            for a, l, _v in rows_:
                if (a, l) in seen:
                    items.append({'type': 'LABEL_RECORDED_TWICE',
                                  'path': name, 'label': [a, l],
                                  'app_emptied': any(
                                      not h.app_models(a, v)
                                      for v in range(n + 1))})
                seen.add((a, l))
            after = ev.get('after') or {}
            stats['stored_eq_current_%s' % after.get(
                'stored_eq_current')] = stats.get(
                'stored_eq_current_%s' % after.get('stored_eq_current'),
                0) + 1
            # "equal" is judged the way the evolver judges it: an empty
            # difference in both directions (== additionally compares
            # bookkeeping such as explicit defaults, see KF-C05-EQ-*)
            if not (after.get('stored_diff_empty') and
                    after.get('current_diff_empty')):
                items.append({'type': 'STORED_SIG_NOT_CURRENT', 'path': name,
                              'eq': after.get('stored_eq_current'),
                              'diff_empty': after.get('stored_diff_empty'),
                              'rdiff_empty': after.get('current_diff_empty'),
                              'diff': (after.get('stored_diff') or '')[:200]})
            # rows against the reference row model
            if name.startswith(('direct', 'step')):
                i = int(name.replace('direct', '').replace('step', ''))
                notes = {}
                exp = _expected_rows(h, i, n, base_rows[i], notes)
                ritems, rstats = refrows.compare_rows(
                    {t: r for t, r in exp.items()
                     if not t.startswith('django_')}, snap, notes)
                for it in ritems:
                    it['path'] = name
                items.extend(ritems)
                stats['values_compared'] = stats.get('values_compared', 0) \
                    + rstats['values_compared']
            # ---- a further run is a no-op
            sha = proj.sha(db)
            ev2 = run(db, n, rng.choice(DRIVERS))
            items += step_items(ev2, 'rerun %s' % name)
            stats['noop_reruns'] = stats.get('noop_reruns', 0) + 1
            mut = mutating_between_marks(ev2)
            if mut:
                items.append({'type': 'RERUN_EXECUTED_SQL', 'path': name,
                              'sql': mut[0][:200], 'n': len(mut)})
            if proj.sha(db) != sha:
                items.append({'type': 'RERUN_CHANGED_FILE', 'path': name})
            st = proj.run('status', version=n, db=db)
            stats['steps'] += 1
            f = st.get('facts') or {}
            if f.get('evolution_required') or \
                    f.get('diff_evolutions_empty') is False:
                items.append({'type': 'RERUN_STILL_REQUIRED', 'path': name,
                              'facts': {k: f.get(k) for k in (
                                  'evolution_required',
                                  'diff_evolutions_empty')}})
    finally:
        stats['decoy_runs'] = proj.decoy_runs
        proj.cleanup()
    nontrivial = len(set(S.canon(s) for s in h.specs)) >= 2
    ops = [seqcase.op_kinds(st) for st in h.steps]
    for it in items:
        it['ops'] = sorted(set(k for st in ops for k in st))
    return {'key': S.canon([h.specs, h.steps]), 'nontrivial': nontrivial,
            'items': items, 'stats': stats,
            'case': {'specs': h.specs, 'steps': h.steps, 'apps': list(apps)}}


def _expected_rows(h, i, n, rows, notes):
    """Apply the reference row model edit by edit with the exact
    intermediate specs of every step."""
    from .. import edits as E
    exp = {t: [dict(r) for r in rs] for t, rs in rows.items()}
    for v in range(i, n):
        cur = h.specs[v]
        for e in h.steps[v]:
            nxt = E.apply_edit(cur, e)
            exp = refrows.apply_edit_rows(exp, cur, nxt, e, notes)
            cur = nxt
    return exp
