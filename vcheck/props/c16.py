"""C16 - evolving one database only applies what is routed to that database.

Two SQLite files behind a generated router that splits the models of one app
every possible way; evolutions touch models on both sides.  Each database is
evolved in turn through the Evolver API / `evolve --database`.  Oracles:
tables created / altered on X are exactly those of models routed to X
(reference ownership from the generated spec), the stored signature on X lists
exactly those models, mutations for models routed elsewhere are skipped (no
exception, no SQL), the other database file's SHA-256 is unchanged and the
statement trace shows no mutating statement on the other alias.
"""
import itertools
import json

from .. import dbsnap, edits as E, labenv, projlab, seqcase
from .. import specs as S

ID = 'C16'
LEVEL = 'exploration'
RULE = ('cases = one app with 2-3 models, every assignment of the models to '
        '{default, other} (exhaustive per model count), x a generated '
        'evolution V0->V1 that adds / deletes / changes a field on every '
        'model (and, in a third of the cases, renames one model keeping its '
        'table); V0 is installed on both databases, then each database is '
        'evolved to V1 in turn. non-trivial = both databases own at least '
        'one model that the evolution touches; distinct = hash of (spec, '
        'split, evolution).')
ASSUMPTIONS = [
    'SQLite files; the router answers allow_migrate / db_for_* from a fixed '
    'table; django_evolution and contenttypes live on both databases',
]
FLOORS = {'quick': {'handover_runs': 8, 
                    'nontrivial': 10, 'db_runs': 60,
                    'sql_evolution_values_checked': 1},
          'thorough': {'handover_runs': 40, 
                       'nontrivial': 150, 'db_runs': 900,
                       'sql_evolution_values_checked': 30}}
SIZES = {'quick': 24, 'thorough': 300}
HANDOVERS = {'quick': 8, 'thorough': 48}
TIMEOUT = {'quick': 170, 'thorough': 1700}


def eff_seed(seed):
    return seed % 8


def plan(tier, seed):
    es = eff_seed(seed)
    return [{'mode': 'split', 'seed': es, 'i': i}
            for i in range(SIZES[tier])] + \
        [{'mode': 'handover', 'seed': es, 'i': i}
         for i in range(HANDOVERS[tier])]


def worker_setup():
    labenv.setup()


def gen(rng, i):
    n = 2 + (i % 2)
    names = ['A', 'B', 'C'][:n]
    spec = {'app1': {}}
    for m in names:
        spec['app1'][m] = {'fields': [
            ['v', {'kind': 'Integer'}],
            ['w', {'kind': 'Char', 'max_length': 20, 'null': True}]],
            'meta': {}}
    splits = list(itertools.product(('default', 'other'), repeat=n))
    split = splits[(i // 2) % len(splits)]
    routes = {('app1', m.lower()): db for m, db in zip(names, split)}
    edits = []
    cur = spec
    deleted = None
    # a quarter of the evolutions only touch models of one database
    side = rng.choice(['default', 'other'])
    one_sided = side if (rng.random() < 0.15 or i % 4 == 1) else None
    for m in names:
        if one_sided and routes[('app1', m.lower())] != one_sided and \
                len([x for x in names
                     if routes[('app1', x.lower())] == one_sided]) > 0:
            continue
        kind = rng.choice(['add', 'add_initial', 'delete', 'change', 'meta',
                           'delete_model'])
        if kind == 'delete_model' and (deleted or n < 3):
            kind = 'meta'
        if kind == 'meta':
            # mutations that name a model but no field
            e = {'op': 'change_meta', 'app': 'app1', 'model': m,
                 'prop': 'index_together', 'value': [['v', 'w']]}
        elif kind == 'delete_model':
            e = {'op': 'delete_model', 'app': 'app1', 'model': m}
            deleted = m
        elif kind == 'add':
            e = {'op': 'add_field', 'app': 'app1', 'model': m, 'name': 'x',
                 'fdef': {'kind': 'Integer', 'null': True}}
        elif kind == 'add_initial':
            e = {'op': 'add_field', 'app': 'app1', 'model': m, 'name': 'x',
                 'fdef': {'kind': 'Integer', 'db_index': True}, 'initial': 3}
        elif kind == 'delete':
            e = {'op': 'delete_field', 'app': 'app1', 'model': m,
                 'name': 'w'}
        else:
            e = {'op': 'change_field', 'app': 'app1', 'model': m,
                 'name': 'w', 'attrs': {'max_length': 50}}
        edits.append(e)
    renamed = None
    on_other = [x for x in names if x != deleted and
                routes[('app1', x.lower())] == 'other']
    force_late = i % 6 == 3 and bool(on_other)
    if rng.random() < 0.2 or i % 3 == 0:
        m = rng.choice(on_other if force_late else
                       [x for x in names if x != deleted])
        new = m + 'x'
        # half of the renames also move the model to the new default table
        # (always for a model on `other` in every sixth project: late_app)
        new_table = rng.random() < 0.5 or force_late
        edits.append({'op': 'rename_model', 'app': 'app1', 'old': m,
                      'new': new,
                      'db_table': S.default_table('app1', new) if new_table
                      else S.model_table(spec, 'app1', m)})
        routes[('app1', new.lower())] = routes[('app1', m.lower())]
        renamed = (m, new, new_table)
    rng.shuffle(edits)
    if renamed:
        # the RenameModel comes last: mutations that follow a rename inside
        # one batch hit KF-C03-M2-RENAMEMODEL-IN-BATCH, which is not what
        # this check is about
        edits = [e for e in edits if e['op'] != 'rename_model'] + \
            [e for e in edits if e['op'] == 'rename_model']
    texts = []
    for e in edits:
        texts.append(str(E.to_mutation(cur, e)))
        cur = E.apply_edit(cur, e)
    return spec, cur, routes, edits, texts, renamed


def owned_by(spec, routes, db):
    t = set()
    for m in spec['app1']:
        if routes[('app1', m.lower())] == db:
            t.update(S.owned_tables(spec, 'app1', m))
    return t


def user_tables(proj, db):
    return {t: e for t, e in proj.snapshot(db).items()
            if not t.startswith('django_')}


def stored_models(proj, db):
    rows = proj.version_rows(db)
    if not rows:
        return None
    text = sorted(rows, key=lambda r: r['id'])[-1]['signature']
    d = json.loads(text[5:]) if text.startswith('json!') else {}
    return sorted(d.get('apps', {}).get('app1', {}).get('models', {}))


MIGRATION_SRC = """from django.db import migrations, models


class Migration(migrations.Migration):
    initial = %(initial)r
    dependencies = %(deps)r
    operations = [
%(ops)s
    ]
"""


def _create_model_op(name, fields):
    lines = ["        migrations.CreateModel(name=%r, fields=[" % name,
             "            ('id', models.AutoField(auto_created=True, "
             "primary_key=True, serialize=False, verbose_name='ID')),"]
    for fn, fd in fields:
        lines.append("            (%r, %s)," % (fn, projlab.field_source(fd)))
    lines.append("        ]),")
    return '\n'.join(lines)


def run_handover(desc):
    """A router-split app is handed over to Django migrations: on each
    database the pending evolution is applied to the models routed there,
    the covered initial migration is recorded on *that* database only (not
    executed), the later migration is executed there for the routed models
    only, and the other database file is not modified."""
    rng = seqcase.rng_for('C16h', desc['seed'], desc['i'])
    i = desc['i']
    names = ['A', 'B', 'C'][:2 + (i % 2)]
    splits = [sp for sp in itertools.product(('default', 'other'),
                                             repeat=len(names))
              if len(set(sp)) == 2]
    split = splits[(i // 2) % len(splits)]
    routes = {('app1', m.lower()): db for m, db in zip(names, split)}
    base = [['v', {'kind': 'Integer'}],
            ['w', {'kind': 'Char', 'max_length': 20, 'null': True}]]
    x = ['x', {'kind': 'Integer', 'null': True}]
    mg2 = ['mg2', {'kind': 'Integer', 'null': True}]
    spec0 = {'app1': {m: {'fields': S.clone(base), 'meta': {}}
                      for m in names}}
    spec1 = {'app1': {m: {'fields': S.clone(base) + [list(x)], 'meta': {}}
                      for m in names}}
    spec2 = {'app1': {m: {'fields': S.clone(base) + [list(x), list(mg2)],
                          'meta': {}} for m in names}}
    mark_initial = i % 4 != 3
    texts1 = ["AddField(%r, 'x', models.IntegerField, null=True)" % m
              for m in names]
    evolutions = [('e1', texts1, {}),
                  ('e_move', ['MoveToDjangoMigrations(mark_applied=%r)' % (
                      ['0001_initial'] if mark_initial else [])], {})]
    items, stats = [], {'projects': 1, 'db_runs': 0, 'handover_projects': 1}
    proj = projlab.Project()
    files = {'default': 'd.db', 'other': 'o.db'}
    import os
    try:
        proj.write_app('app1', [spec0['app1'], spec2['app1']], evolutions,
                       nv=[0, 2])
        proj.write_router(routes)
        os.makedirs(proj.path('app1', 'migrations_real'))
        open(proj.path('app1', 'migrations_real', '__init__.py'),
             'w').close()
        with open(proj.path('app1', 'migrations_real', '0001_initial.py'),
                  'w') as f:
            f.write(MIGRATION_SRC % {
                'initial': True, 'deps': [],
                'ops': '\n'.join(_create_model_op(
                    m, spec1['app1'][m]['fields']) for m in names)})
        with open(proj.path('app1', 'migrations_real', '0002_mg2.py'),
                  'w') as f:
            f.write(MIGRATION_SRC % {
                'initial': False, 'deps': [('app1', '0001_initial')],
                'ops': '\n'.join(
                    "        migrations.AddField(model_name=%r, name='mg2', "
                    "field=models.IntegerField(null=True))," % m.lower()
                    for m in names)})
        on = {'app1': 'app1.migrations_real'}
        off = {'app1': None}

        def run(action, v, alias, migmods):
            stats['db_runs'] += 1
            return proj.run(action, version=v, db=files['default'],
                            db2=files['other'], router=True, migmods=migmods,
                            args={'database': alias})

        for alias in ('default', 'other'):
            ev = run('evolve_api', 0, alias, off)
            if ev.get('driver_error') or not ev['outcome']['ok']:
                return {'key': S.canon(['handover', i]), 'nontrivial': False,
                        'items': [], 'stats': {'skipped_install_failed': 1},
                        'case': None,
                        'harness_error': str(ev.get('outcome') or ev)[:500]}
            proj.insert_rows({t: [{'id': 1, 'v': 5, 'w': "it's"}]
                              for t in owned_by(spec0, routes, alias)},
                             files[alias])
        order = ['default', 'other']
        if (i // 4) % 2:
            order.reverse()

        def mig_rows(alias):
            return sorted(
                r.get('name') for r in proj.table_rows(
                    'django_migrations', files[alias])
                if r.get('app') == 'app1')

        for alias in order:
            other = 'other' if alias == 'default' else 'default'
            sha_other = proj.sha(files[other])
            other_rows = mig_rows(other)
            drv = rng.choice(['evolve_api', 'evolve_cmd'])
            ev = run(drv, 1, alias, on)
            ctx = {'alias': alias, 'driver': drv, 'handover': True,
                   'mark_has_initial': mark_initial,
                   'first_database': alias == order[0]}
            if ev.get('driver_error'):
                items.append(dict(ctx, type='DRIVER_ERROR',
                                  detail=str(ev)[:300]))
                continue
            if not ev['outcome']['ok']:
                o = ev['outcome']
                items.append(dict(ctx, type='RUN_FAILED', exc=o['exc'],
                                  site=o.get('site'),
                                  msg=o.get('msg', '')[:200]))
                continue
            foreign = [e for e in ev['events'] if e['kind'] == 'sql' and
                       e.get('mutating') and e.get('alias') == other]
            if foreign:
                items.append(dict(ctx, type='STATEMENT_ON_OTHER_DATABASE',
                                  sql=foreign[0]['sql'][:120]))
            if proj.sha(files[other]) != sha_other:
                items.append(dict(ctx, type='OTHER_DATABASE_FILE_CHANGED'))
            if mig_rows(other) != other_rows:
                items.append(dict(ctx, type='MIGRATION_ROWS_ON_OTHER_CHANGED',
                                  before=other_rows, after=mig_rows(other)))
            stats['handover_runs'] = stats.get('handover_runs', 0) + 1
            got = mig_rows(alias)
            if got != ['0001_initial', '0002_mg2']:
                items.append(dict(ctx, type='MIGRATION_ROWS_WRONG', got=got))
            after = user_tables(proj, files[alias])
            want = owned_by(spec2, routes, alias)
            if set(after) != want:
                items.append(dict(ctx, type='TABLES_WRONG',
                                  missing=sorted(want - set(after)),
                                  extra=sorted(set(after) - want)))
            for t in sorted(want & set(after)):
                cols = set(after[t]['columns'])
                if cols != {'id', 'v', 'w', 'x', 'mg2'}:
                    items.append(dict(ctx, type='COLUMNS_WRONG', table=t,
                                      got=sorted(cols)))
                if len(after[t].get('rows', [])) != 1:
                    items.append(dict(ctx, type='ROWS_LOST', table=t))
            executed = [e for e in ev['events'] if e['kind'] == 'sql' and
                        e.get('mutating') and
                        'CREATE TABLE "app1_' in e['sql']]
            if executed:
                items.append(dict(ctx, type='COVERED_MIGRATION_EXECUTED',
                                  sql=executed[0]['sql'][:120]))
    finally:
        proj.cleanup()
    return {'key': S.canon(['handover', i, sorted(routes.items())]),
            'nontrivial': True, 'items': items, 'stats': stats,
            'case': {'routes': {'%s.%s' % k: v for k, v in routes.items()},
                     'mark_initial': mark_initial, 'order': order}}


def run_case(desc):
    if desc.get('mode') == 'handover':
        return run_handover(desc)
    rng = seqcase.rng_for('C16', desc['seed'], desc['i'])
    spec0, spec1, routes, edits, texts, renamed = gen(rng, desc['i'])
    items, stats = [], {'projects': 1, 'db_runs': 0}
    proj = projlab.Project()
    files = {'default': 'd.db', 'other': 'o.db'}
    try:
        # a third of the projects also ship a data evolution as
        # per-database SQL files (evolutions/<database>_<label>.sql): each
        # file only names a table of its own database
        sql_target = {}
        evolutions = [('e1', texts, {})]
        survivors = [m for m in spec0['app1'] if m in spec1['app1'] or (
            renamed and renamed[0] == m)]
        if rng.random() < 0.34:
            evolutions.append(('e2', [], {}))
            for alias in ('default', 'other'):
                mine = [m for m in survivors
                        if routes[('app1', m.lower())] == alias]
                if mine:
                    # (e2 runs after e1: the table name after a rename)
                    m0 = sorted(mine)[0]
                    sql_target[alias] = S.model_table(
                        spec1, 'app1',
                        renamed[1] if renamed and renamed[0] == m0 else m0)
            stats['per_database_sql'] = 1
        specs = [spec0, spec1]
        nv = [0, len(evolutions)]
        lead = not renamed and not sql_target and rng.random() < 0.5
        # the whole app lives on `other`: the late evolution also carries a
        # plain SQLMutation creating a helper table; on `default` the app has
        # nothing to evolve (its evolutions are only recorded there), so the
        # helper table may only appear on `other`
        aux = not renamed and not sql_target and \
            set(routes.values()) == {'other'}
        lead = lead or aux
        if lead:
            # one database is taken two versions ahead before the other one
            # is touched; the last evolution names an earlier one of the
            # app as a requirement (applied there, still pending elsewhere)
            spec2 = S.clone(spec1)
            t3 = []
            for m in sorted(spec2['app1']):
                spec2['app1'][m]['fields'].append(
                    ['y', {'kind': 'Integer', 'null': True}])
                t3.append("AddField(%r, 'y', models.IntegerField, "
                          "null=True)" % m)
            if aux:
                t3.append("SQLMutation('aux_table', ['CREATE TABLE "
                          "\"app1_aux\" (\"id\" integer NOT NULL PRIMARY "
                          "KEY)'])")
                stats['helper_table_projects'] = 1
            evolutions.append(('e_late', t3,
                               {'AFTER_EVOLUTIONS': [('app1', 'e1')]}))
            specs.append(spec2)
            nv.append(len(evolutions))
            stats['lead_projects'] = 1
        proj.write_app('app1', [sp['app1'] for sp in specs],
                       evolutions, nv=nv)
        for alias, table in sql_target.items():
            with open(proj.path('app1', 'evolutions',
                                '%s_e2.sql' % alias), 'w') as f:
                f.write('UPDATE "%s" SET "v" = "v" + 100;\n' % table)
        proj.write_router(routes)

        def run(action, v, alias, apps=None):
            stats['db_runs'] += 1
            return proj.run(action, version=v, db=files['default'],
                            db2=files['other'], router=True, apps=apps,
                            args={'database': alias})

        # a model on `other` is renamed to a new table: the app only shows
        # up in INSTALLED_APPS after `default` was installed, so on `default`
        # its evolutions are recorded as a fresh install (no mutation runs
        # there) while they are still pending on `other`
        late_app = bool(renamed) and renamed[2] and \
            routes[('app1', renamed[0].lower())] == 'other' and \
            not sql_target and not lead
        if late_app:
            stats['late_app_projects'] = 1
        # ---- install V0 on both
        for alias in ('default', 'other'):
            ev = run('evolve_api', 0, alias,
                     apps=[] if late_app and alias == 'default' else None)
            if ev.get('driver_error') or not ev['outcome']['ok']:
                items.append({'type': 'INSTALL_FAILED', 'alias': alias,
                              'detail': str(ev.get('outcome') or ev)[:300]})
        fresh_on = {'default'} if late_app else set()
        for alias in ('default', 'other'):
            have = set(user_tables(proj, files[alias]))
            want = owned_by(spec0, routes, alias) \
                if alias not in fresh_on else set()
            if have != want:
                items.append({'type': 'INSTALL_TABLES_WRONG', 'alias': alias,
                              'missing': sorted(want - have),
                              'extra': sorted(have - want)})
        for alias in ('default', 'other'):
            if alias in fresh_on:
                continue
            proj.insert_rows({t: [{'id': 1, 'v': 5, 'w': "it's"}]
                              for t in owned_by(spec0, routes, alias)},
                             files[alias])
        # ---- evolve each database in turn
        order = ['default', 'other']
        rng.shuffle(order)
        if late_app:
            order = ['default', 'other']
        steps = [(order[0], 1), (order[1], 1)]
        if lead:
            steps = [(order[0], 1), (order[0], 2), (order[1], 2)]
        at = {'default': 0, 'other': 0}
        for alias, ver in steps:
            other = 'other' if alias == 'default' else 'default'
            sha_other = proj.sha(files[other])
            before = user_tables(proj, files[alias])
            drv = rng.choice(['evolve_api', 'evolve_cmd'])
            ev = run(drv, ver, alias)
            spec_prev, spec1 = specs[at[alias]], specs[ver]
            if not ev.get('driver_error') and ev['outcome']['ok']:
                at[alias] = ver
            ctx = {'alias': alias, 'driver': drv, 'to_version': ver,
                   'lead': bool(lead),
                   'has_rename': bool(renamed), 'late_app': late_app,
                   'rename_new_table': bool(renamed) and renamed[2],
                   'rename_routed_here': bool(renamed) and routes[
                       ('app1', renamed[0].lower())] == alias}
            if ev.get('driver_error'):
                items.append(dict(ctx, type='DRIVER_ERROR',
                                  detail=str(ev)[:300]))
                continue
            if not ev['outcome']['ok']:
                o = ev['outcome']
                items.append(dict(ctx, type='RUN_FAILED', exc=o['exc'],
                                  site=o.get('site'),
                                  msg=o.get('msg', '')[:200]))
            foreign = [e for e in ev['events'] if e['kind'] == 'sql' and
                       e.get('mutating') and e.get('alias') == other]
            if foreign:
                items.append(dict(ctx, type='STATEMENT_ON_OTHER_DATABASE',
                                  sql=foreign[0]['sql'][:120]))
            if proj.sha(files[other]) != sha_other:
                items.append(dict(ctx, type='OTHER_DATABASE_FILE_CHANGED'))
            after = user_tables(proj, files[alias])
            # (a failed run leaves V0 behind: the set of tables is then
            # compared with what this database owned before)
            want = owned_by(spec1 if ev['outcome']['ok'] else spec_prev,
                            routes, alias)
            if aux and alias == 'other' and at[alias] == 2:
                want = want | {'app1_aux'}
            if set(after) != want:
                items.append(dict(ctx, type='TABLES_WRONG',
                                  missing=sorted(want - set(after)),
                                  extra=sorted(set(after) - want)))
            # the altered tables must be the expected ones with the
            # expected schema: compare with a fresh single-db reference
            sm = stored_models(proj, files[alias])
            want_models = sorted(m for m in spec1['app1']
                                 if routes[('app1', m.lower())] == alias)
            if ev['outcome']['ok'] and sm != want_models:
                items.append(dict(ctx, type='STORED_MODELS_WRONG',
                                  stored=sm, expected=want_models))
            # column-level expectation from the spec
            if ev['outcome']['ok']:
                for m in want_models:
                    t = S.model_table(spec1, 'app1', m)
                    if t not in after:
                        continue
                    cols = set(after[t]['columns'])
                    exp = {'id'} | set(
                        S.column_of(n, f) for n, f in
                        spec1['app1'][m]['fields'])
                    if cols != exp:
                        items.append(dict(ctx, type='COLUMNS_WRONG', table=t,
                                          got=sorted(cols),
                                          expected=sorted(exp)))
                    if alias in fresh_on:
                        pass
                    elif len(after[t].get('rows', [])) != 1:
                        items.append(dict(ctx, type='ROWS_LOST', table=t))
                    elif sql_target:
                        stats['sql_evolution_values_checked'] = stats.get(
                            'sql_evolution_values_checked', 0) + 1
                        exp_v = 105 if sql_target.get(alias) == t else 5
                        if after[t]['rows'][0].get('v') != exp_v:
                            items.append(dict(
                                ctx, type='SQL_EVOLUTION_EFFECT', table=t,
                                got=after[t]['rows'][0].get('v'),
                                expected=exp_v))
    finally:
        proj.cleanup()
    dbs = set(routes.values())
    return {'key': S.canon([spec0, sorted(routes.items()), texts]),
            'nontrivial': len(dbs) == 2, 'items': items, 'stats': stats,
            'case': {'routes': {'%s.%s' % k: v for k, v in routes.items()},
                     'texts': texts, 'renamed': renamed}}
