"""C06 - stored project signatures read back exactly as written.

Round-trip identity observed on the real storage paths:
  P1  serialize() -> json text -> json.loads(object_pairs_hook=OrderedDict)
      (exactly what SignatureField.to_python does) -> deserialize()
  P2  Version(signature=s).save() -> Version.objects.get(pk).signature, and the
      stored column text after saving the reloaded object again
  P3  v2 -> v1 -> v2 for the v1-expressible subset (logical content only)
For each path: p(s) == s, Diff empty both ways, p(s).serialize() equals
s.serialize() and the stored text is stable.
"""
import json
from collections import OrderedDict

from .. import edits as E, labenv, seqcase, siglab
from .. import specs as S

ID = 'C06'
LEVEL = 'exploration'
RULE = ('cases = project signatures (a) taken from generated model sets '
        '(all field kinds, unique_together, index_together, conditional / '
        'descending Meta indexes, check and unique constraints) and (b) '
        'constructed directly with nested/negated/OR/XOR Q objects, F and '
        'combined expressions, Value, Lower(), Deferrable enums, tuples vs '
        'lists, unicode / quote characters, None/False/0 attribute values, '
        'include, opclasses, db_tablespace, upgrade method and applied '
        'migrations; each pushed through P1 (serialize/json/deserialize), P2 '
        '(Version.save + reload on SQLite) and P3 (v2->v1->v2 where '
        'expressible). non-trivial = the signature holds at least one '
        'index, constraint, relation or non-default attribute; distinct = '
        'sha of the serialized signature.')
ASSUMPTIONS = [
    'SQLite; Django 4.2 code paths of the serializers',
    'P3 is applied only to signatures without constraints, index '
    'expressions/conditions and compares logical content (Diff), not text',
]
FLOORS = {'quick': {'legacy_rows_read': 8, 
                    'nontrivial': 150, 'roundtrips': 900},
          'thorough': {'legacy_rows_read': 60, 
                       'nontrivial': 2000, 'roundtrips': 12000}}
SIZES = {'quick': (300, 500), 'thorough': (5000, 9000)}


def eff_seed(seed):
    return seed % 8


def plan(tier, seed):
    es = eff_seed(seed)
    nm, nd = SIZES[tier]
    return [{'mode': 'models', 'seed': es, 'i': i} for i in range(nm)] + \
        [{'mode': 'direct', 'seed': es, 'i': i} for i in range(nd)]


def worker_setup():
    labenv.setup()
    from django.db import connections
    from django_evolution.models import Evolution, Version
    labenv.reset_db('default')
    with connections['default'].schema_editor() as se:
        se.create_model(Version)
        se.create_model(Evolution)


# ------------------------------------------------------------ direct builder

STRS = ['x', "it's", 'a"b', '100%', 'back\\slash', 'ünï€', '', ' sp ',
        '%(x)s', "'; --"]


Q_FEATS = set()


def gen_q(rng, depth=0):
    from django.db.models import F, Q, Value
    r = rng.random()
    if depth >= 3 or r < 0.35:
        lookup = rng.choice(['a__gt', 'a__gte', 'b__lt', 'b', 'c__isnull',
                             'd__in', 'e__startswith'])
        if lookup == 'd__in':
            val = rng.choice([[1, 2], (1, 2), ['x', "y'"], ()])
            if isinstance(val, tuple):
                Q_FEATS.add('q_tuple_value')
        elif lookup == 'c__isnull':
            val = rng.choice([True, False])
        elif lookup == 'e__startswith':
            val = rng.choice(STRS)
        else:
            val = rng.choice([0, 1, -5, None, False, 'x', F('b'),
                              Value(3), 2.5])
        q = Q(**{lookup: val})
    elif r < 0.55:
        q = gen_q(rng, depth + 1) & gen_q(rng, depth + 1)
    elif r < 0.75:
        q = gen_q(rng, depth + 1) | gen_q(rng, depth + 1)
    elif r < 0.85:
        q = gen_q(rng, depth + 1) ^ gen_q(rng, depth + 1)
    elif r < 0.93:
        q = Q(gen_q(rng, depth + 1))           # single nested child
    else:
        q = Q()
    if rng.random() < 0.25:
        q = ~q
    return q


def gen_expression(rng):
    from django.db.models import F, Value
    from django.db.models.functions import Lower, Upper
    r = rng.random()
    if r < 0.3:
        return F(rng.choice(['a', 'b']))
    if r < 0.5:
        return Lower(rng.choice(['a', 'b']))
    if r < 0.6:
        return Upper('a').desc()
    if r < 0.8:
        return F('a') + rng.choice([1, Value(2), F('b')])
    if r < 0.88:
        return F('a').desc()
    if r < 0.95:
        # expressions passed as keyword arguments of other expressions
        from django.db.models import Case, When
        return Case(When(a__gt=rng.choice([0, 1]), then=F('b')),
                    When(b=rng.choice(['x', "y'"]), then=Value(2)),
                    default=rng.choice([Value(0), F('a')]))
    return Value(rng.choice([1, 'x']))


def gen_direct_sig(rng):
    from django.db import models
    from django.db.models import Deferrable
    from django_evolution.signature import (AppSignature, ConstraintSignature,
                                            FieldSignature, IndexSignature,
                                            ModelSignature, ProjectSignature)
    from django_evolution.consts import UpgradeMethod
    psig = ProjectSignature()
    feats = set()
    Q_FEATS.clear()
    for ai in range(rng.randint(1, 2)):
        um = rng.choice([None, UpgradeMethod.EVOLUTIONS,
                         UpgradeMethod.MIGRATIONS])
        applied = None
        if um:
            feats.add('upgrade_method')
        if um == UpgradeMethod.MIGRATIONS:
            applied = rng.sample(['0001_initial', '0002_x', '0003_y'],
                                 rng.randint(0, 3))
            feats.add('applied_migrations')
        legacy = rng.choice([None, None, 'legacy'])
        if legacy:
            feats.add('legacy_app_label')
        asig = AppSignature(app_id='app%d' % (ai + 1),
                            legacy_app_label=legacy,
                            upgrade_method=um,
                            applied_migrations=applied)
        for mi in range(rng.randint(1, 2)):
            msig = ModelSignature(
                model_name='M%d' % mi,
                table_name=rng.choice(['t_%d_%d' % (ai, mi), 'ünï_tbl']),
                db_tablespace=rng.choice([None, 'ts']),
                pk_column='id')
            msig.add_field_sig(FieldSignature(
                field_name='id', field_type=models.AutoField,
                field_attrs={'primary_key': True}))
            for fi, fname in enumerate(['a', 'b', 'c']):
                ft = rng.choice([models.CharField, models.IntegerField,
                                 models.DecimalField, models.ForeignKey,
                                 models.ManyToManyField,
                                 models.BooleanField])
                attrs = {}
                explicit_default = rng.random() < 0.08
                for k, vals, dflt in (
                        ('null', [True], False),
                        ('max_length', [0, 20], None),
                        ('db_index', [True], False),
                        ('unique', [True], False),
                        ('db_column', ['', 'c\u00f6l', "c'l"], None)):
                    if rng.random() < 0.3:
                        attrs[k] = rng.choice(vals)
                        feats.add('attr_' + k)
                    elif explicit_default and rng.random() < 0.5:
                        attrs[k] = dflt
                        feats.add('explicit_default')
                if ft is models.DecimalField:
                    attrs['max_digits'] = rng.choice([5, 12])
                    attrs['decimal_places'] = rng.choice([0, 2])
                    feats.add('attr_decimal')
                if ft in (models.ForeignKey,) and rng.random() < 0.3:
                    attrs['db_index'] = False
                    feats.add('attr_fk_noindex')
                rel = None
                if ft in (models.ForeignKey, models.ManyToManyField):
                    rel = 'app1.M0'
                    feats.add('relation')
                    if ft is models.ManyToManyField and rng.random() < 0.4:
                        attrs['db_table'] = 'm2m_t'
                msig.add_field_sig(FieldSignature(
                    field_name=fname, field_type=ft, field_attrs=attrs,
                    related_model=rel))
            if rng.random() < 0.4:
                msig.unique_together = rng.choice(
                    [[('a', 'b')], [['a', 'b'], ['b', 'c']], (('a', 'c'),)])
                feats.add('unique_together')
            if rng.random() < 0.3:
                msig.index_together = rng.choice(
                    [[('a', 'b')], [['b', 'c']]])
                feats.add('index_together')
            for ii in range(rng.randint(0, 2)):
                attrs = {}
                exprs = None
                fields = rng.choice([['a'], ['-a', 'b'], ['a', 'b'], None])
                if not fields or rng.random() < 0.25:
                    # what IndexSignature.from_index() produces for an
                    # expression index: a tuple of expressions, no fields
                    exprs = tuple(gen_expression(rng)
                                  for _ in range(rng.randint(1, 2)))
                    fields = None
                    feats.add('index_expressions')
                if rng.random() < 0.4:
                    attrs['condition'] = gen_q(rng)
                    feats.add('index_condition')
                if rng.random() < 0.2:
                    attrs['include'] = rng.choice([('c',), ['c']])
                    feats.add('index_include')
                if rng.random() < 0.2 and fields:
                    attrs['opclasses'] = rng.choice(
                        [['varchar_pattern_ops'] * len(fields),
                         tuple(['int4_ops'] * len(fields))])
                    feats.add('index_opclasses')
                if rng.random() < 0.2:
                    attrs['db_tablespace'] = 'tsx'
                    feats.add('index_tablespace')
                msig.add_index_sig(IndexSignature(
                    fields=fields, name='ix_%d_%d_%d' % (ai, mi, ii),
                    expressions=exprs, attrs=attrs))
                feats.add('index')
            for ci in range(rng.randint(0, 2)):
                if rng.random() < 0.5:
                    attrs = {'check': gen_q(rng)}
                    ctype = models.CheckConstraint
                    feats.add('check_constraint')
                else:
                    attrs = {'fields': rng.choice([('a', 'b'), ['a', 'b'],
                                                   ('c',)])}
                    feats.add('unique_constraint_fields_%s' %
                              type(attrs['fields']).__name__)
                    if rng.random() < 0.4:
                        attrs['condition'] = gen_q(rng)
                        feats.add('unique_constraint_condition')
                    if rng.random() < 0.3:
                        attrs['deferrable'] = rng.choice(
                            [Deferrable.DEFERRED, Deferrable.IMMEDIATE])
                        feats.add('deferrable')
                    if rng.random() < 0.3:
                        # UniqueConstraint.deconstruct() yields tuples here
                        attrs['include'] = rng.choice([('c',), ('b', 'c'),
                                                       ['c']])
                        feats.add('unique_constraint_include')
                    if rng.random() < 0.25:
                        attrs['opclasses'] = rng.choice(
                            [tuple(['int4_ops'] * len(attrs['fields'])),
                             ['varchar_pattern_ops'] * len(attrs['fields'])])
                        feats.add('unique_constraint_opclasses')
                    ctype = models.UniqueConstraint
                msig.add_constraint_sig(ConstraintSignature(
                    name='c_%d_%d_%d' % (ai, mi, ci), constraint_type=ctype,
                    attrs=attrs))
            asig.add_model_sig(msig)
        psig.add_app_sig(asig)
    feats |= Q_FEATS
    return psig, sorted(feats)


def gen_models_sig(rng):
    gen = E.SpecGen(rng, apps=('app1', 'app2'))
    spec = gen.gen_spec()
    # make Meta options likely
    for app, mods in spec.items():
        for m in mods:
            for prop in ('indexes', 'constraints', 'unique_together'):
                if rng.random() < 0.5:
                    v = E.gen_meta_value(rng, spec, app, m, prop, gen.uniq)
                    if v:
                        spec[app][m].setdefault('meta', {})[prop] = v
    classes = S.build_models(spec)
    psig = S.project_sig(classes, apps_order=list(spec))
    feats = set()
    for app, mods in spec.items():
        for m, ms in mods.items():
            meta = ms.get('meta') or {}
            for k in ('indexes', 'constraints', 'unique_together',
                      'index_together'):
                if meta.get(k):
                    feats.add(k)
            for ix in meta.get('indexes') or []:
                if ix.get('condition'):
                    feats.add('index_condition')
            for c in meta.get('constraints') or []:
                feats.add('check_constraint' if c['type'] == 'check'
                          else 'unique_constraint_fields_tuple')
                if c.get('condition'):
                    feats.add('unique_constraint_condition')
            for _n, f in ms['fields']:
                if f.get('to'):
                    feats.add('relation')
    return psig, sorted(feats), spec


# -------------------------------------------------------------------- oracle

def first_diff(a, b, path=''):
    """Path of the first difference between two JSON-like structures."""
    if type(a) != type(b) and not (isinstance(a, dict) and
                                   isinstance(b, dict)):
        return '%s: type %s vs %s' % (path, type(a).__name__,
                                      type(b).__name__)
    if isinstance(a, dict):
        for k in a:
            if k not in b:
                return '%s/%s: missing' % (path, k)
            d = first_diff(a[k], b[k], '%s/%s' % (path, k))
            if d:
                return d
        for k in b:
            if k not in a:
                return '%s/%s: extra' % (path, k)
        return None
    if isinstance(a, (list, tuple)):
        if len(a) != len(b):
            return '%s: len %d vs %d' % (path, len(a), len(b))
        for i, (x, y) in enumerate(zip(a, b)):
            d = first_diff(x, y, '%s[%d]' % (path, i))
            if d:
                return d
        return None
    if a != b:
        return '%s: %r vs %r' % (path, a, b)
    return None


def generalise(path):
    """Strip indexes/names from a diff path: mechanism, not instance."""
    import re
    p = re.sub(r'\[\d+\]', '[]', path)
    p = re.sub(r'/apps/[^/]+', '/apps/*', p)
    p = re.sub(r'/models/[^/]+', '/models/*', p)
    p = re.sub(r'/fields/[^/:]+', '/fields/*', p)
    return p.split(':')[0]


def check_pair(orig, back, tag, items, stats):
    stats['roundtrips'] = stats.get('roundtrips', 0) + 1
    try:
        eq = (orig == back)
    except Exception as e:
        items.append(siglab.exc_item('ROUNDTRIP_EXC', e, path=tag,
                                     what='eq'))
        return
    if not eq:
        items.append({'type': 'ROUNDTRIP_NEQ', 'path': tag})
    try:
        _eq, e1, e2, d1, d2 = siglab.sig_equal(orig, back)
    except Exception as e:
        items.append(siglab.exc_item('ROUNDTRIP_EXC', e, path=tag,
                                     what='diff'))
        return
    if not (e1 and e2):
        items.append({'type': 'ROUNDTRIP_DIFF', 'path': tag,
                      'diff': (d1 or d2)[:300]})


def run_case(desc):
    from django_evolution.models import Version
    from django_evolution.signature import ProjectSignature
    rng = seqcase.rng_for('C06', desc['mode'], desc['seed'], desc['i'])
    case = {}
    if desc['mode'] == 'models':
        psig, feats, spec = gen_models_sig(rng)
        case['spec'] = spec
    else:
        psig, feats = gen_direct_sig(rng)
    items, stats = [], {'mode_' + desc['mode']: 1}
    for f in feats:
        stats['feat_' + f] = 1
    # ---- P1
    try:
        ser = psig.serialize()
        text = json.dumps(ser)
        case['serialized'] = text[:1500]
        loaded = json.loads(text, object_pairs_hook=OrderedDict)
        back = ProjectSignature.deserialize(loaded)
        check_pair(psig, back, 'P1', items, stats)
        ser2 = back.serialize()
        text2 = json.dumps(ser2)
        strict = desc['mode'] == 'models'
        # a directly constructed signature carries the harness's own
        # attribute insertion order; only signatures taken from models are
        # held to byte-identical text, the others to identical content
        if (text2 != text) if strict else (
                json.dumps(ser2, sort_keys=True) !=
                json.dumps(ser, sort_keys=True)):
            d = first_diff(json.loads(text), json.loads(text2)) or \
                'key order only'
            items.append({'type': 'RESERIALIZE_DIFF', 'path': 'P1',
                          'where': generalise(d), 'detail': d[:200]})
    except Exception as e:
        items.append(siglab.exc_item('ROUNDTRIP_EXC', e, path='P1',
                                     what='serialize/deserialize'))
        text = None
    # ---- P2
    if text is not None:
        try:
            v = Version(signature=psig)
            v.save()
            raw1 = _raw(v.pk)
            v2 = Version.objects.get(pk=v.pk)
            check_pair(psig, v2.signature, 'P2', items, stats)
            v2.save()
            raw2 = _raw(v.pk)
            stats['version_saves'] = 2
            if (raw1 != raw2) if desc['mode'] == 'models' else (
                    json.dumps(json.loads(raw1[5:]), sort_keys=True) !=
                    json.dumps(json.loads(raw2[5:]), sort_keys=True)):
                d = first_diff(json.loads(raw1[5:]), json.loads(raw2[5:])) \
                    or 'key order only'
                items.append({'type': 'STORED_TEXT_CHANGED', 'path': 'P2',
                              'where': generalise(d), 'detail': d[:200]})
            Version.objects.filter(pk=v.pk).delete()
        except Exception as e:
            items.append(siglab.exc_item('ROUNDTRIP_EXC', e, path='P2',
                                         what='Version save/reload'))
    # ---- P3
    v1_ok = not any(f in feats for f in (
        'check_constraint', 'index', 'indexes', 'constraints',
        'index_condition', 'index_expressions', 'applied_migrations',
        'deferrable', 'legacy_app_label', 'upgrade_method')) and not any(f.startswith('unique_constraint')
                                   for f in feats)
    if v1_ok and text is not None:
        try:
            v1 = psig.serialize(sig_version=1)
            back1 = ProjectSignature.deserialize(v1)
            stats['v1_roundtrips'] = 1
            _eq, e1, e2, d1, d2 = siglab.sig_equal(psig, back1)
            stats['roundtrips'] = stats.get('roundtrips', 0) + 1
            if not (e1 and e2):
                items.append({'type': 'ROUNDTRIP_DIFF', 'path': 'P3',
                              'diff': (d1 or d2)[:300]})
        except Exception as e:
            items.append(siglab.exc_item('ROUNDTRIP_EXC', e, path='P3',
                                         what='v1'))
    # ---- P4: a row written by an old release (version-1 signature, pickle
    # protocol 0 stored as text) is read through the Version model; names
    # outside ASCII must come back unchanged
    if v1_ok and text is not None:
        try:
            from django_evolution.compat.py23 import pickle_dumps
            p4 = psig.clone()
            renamed = 0
            for asig in p4.app_sigs:
                for msig in asig.model_sigs:
                    if renamed < 2:
                        msig.table_name = '%s_%s' % (
                            msig.table_name or 't',
                            ['\u00e9t\u00e9', 'na\u00efve\u00ff'][renamed])
                        renamed += 1
            raw = pickle_dumps(p4.serialize(sig_version=1))
            v = Version(signature=raw)
            v.save()
            v4 = Version.objects.get(pk=v.pk)
            stats['legacy_rows_read'] = 1
            stats['legacy_rows_non_ascii'] = int(renamed > 0)
            _eq, e1, e2, d1, d2 = siglab.sig_equal(p4, v4.signature)
            stats['roundtrips'] = stats.get('roundtrips', 0) + 1
            if not (e1 and e2):
                items.append({'type': 'ROUNDTRIP_DIFF', 'path': 'P4',
                              'diff': (d1 or d2)[:300]})
            Version.objects.filter(pk=v.pk).delete()
        except Exception as e:
            items.append(siglab.exc_item('ROUNDTRIP_EXC', e, path='P4',
                                         what='legacy pickled row'))
    for it in items:
        it['features'] = feats
    key = text or S.canon(desc)
    return {'key': key, 'nontrivial': bool(feats), 'items': items,
            'stats': stats, 'case': case}


def _raw(pk):
    from django.db import connections
    cur = connections['default'].cursor()
    try:
        cur.execute('SELECT signature FROM django_project_version '
                    'WHERE id = %s', [pk])
        return cur.fetchone()[0]
    finally:
        cur.close()
