"""C03 - optimising a mutation sequence never changes its outcome.

Differential monitoring of real executions: path A applies the sequence one
mutation per AppMutator (no optimisation can take place), path B hands the
whole sequence to one AppMutator (the optimiser runs), path B2 processes the
same mutation objects once more.  Final signature, normalised schema and rows
must agree, the definitions must be unaltered, and B must be accepted
whenever A was.
"""
import itertools

from .. import edits as E, labenv, oracle, seqcase, seqpaths, siglab
from .. import specs as S

ID = 'C03'
LEVEL = 'exploration'
RULE = ('cases = (a) every sequence of length <= 2 (quick) / <= 3 (thorough) '
        'over a fixed alphabet of 30 mutation templates on a 2-model schema '
        'with name reuse and an SQLMutation barrier, kept when the real '
        'run_simulation accepts it one mutation at a time; (b) random walks '
        '(length 2-12, 1-3 models, rows) of simulation-valid edits. Each is '
        'run along path A (one AppMutator per mutation), B (one optimised '
        'AppMutator) and B2 (same objects again). non-trivial = the '
        'optimiser removed, rewrote or reordered at least one mutation or '
        'at least two operations were offered for merging; distinct = hash '
        'of (start spec, edits).')
ASSUMPTIONS = [
    'SQLite backend, bare AppMutator level (the Evolver task pipeline half '
    'of the quantifier is exercised by the projlab checks C04/C08)',
    'sequences whose one-at-a-time execution already fails (a C01 matter) '
    'give no reference outcome and are counted as skipped',
    'single app per sequence (an AppMutator is per app)',
]
FLOORS = {'quick': {'nontrivial': 60, 'paths_compared': 150},
          'thorough': {'nontrivial': 600, 'paths_compared': 1500}}
EXHAUSTIVE = {'quick': False, 'thorough': False}
SIZES = {'quick': (2, 500), 'thorough': (3, 5000)}
TIMEOUT = {'quick': 170, 'thorough': 1700}

ENUM_SPEC = {'app1': {
    'A': {'fields': [['f1', {'kind': 'Char', 'max_length': 20}],
                     ['f2', {'kind': 'Integer', 'null': True}],
                     ['n', {'kind': 'Integer', 'db_index': True}]],
          'meta': {}},
    'B': {'fields': [['f1', {'kind': 'Integer'}],
                     ['fk', {'kind': 'ForeignKey', 'to': 'app1.A',
                             'null': True}]],
          'meta': {}},
}}
ENUM_ROWS = {
    'app1_a': [{'id': 1, 'f1': "it's", 'f2': None, 'n': 1},
               {'id': 2, 'f1': '100%', 'f2': 5, 'n': 2},
               {'id': 3, 'f1': 'x', 'f2': None, 'n': 3}],
    'app1_b': [{'id': 1, 'f1': 10, 'fk_id': 1},
               {'id': 2, 'f1': 20, 'fk_id': None}],
}


def _T():
    I = {'kind': 'Integer'}
    t = [
        {'op': 'add_field', 'model': 'A', 'name': 'f3',
         'fdef': dict(I, null=True)},
        {'op': 'add_field', 'model': 'A', 'name': 'f3',
         'fdef': {'kind': 'Char', 'max_length': 10}, 'initial': 'x'},
        {'op': 'add_field', 'model': 'A', 'name': 'f2',
         'fdef': dict(I, db_index=True), 'initial': 7},
        {'op': 'delete_field', 'model': 'A', 'name': 'f2'},
        {'op': 'delete_field', 'model': 'A', 'name': 'f3'},
        {'op': 'rename_field', 'model': 'A', 'old': 'f2', 'new': 'f3'},
        {'op': 'rename_field', 'model': 'A', 'old': 'f3', 'new': 'f2'},
        {'op': 'rename_field', 'model': 'A', 'old': 'n', 'new': 'f2'},
        {'op': 'change_field', 'model': 'A', 'name': 'f2',
         'attrs': {'null': False}, 'initial': 5},
        {'op': 'change_field', 'model': 'A', 'name': 'f2',
         'attrs': {'null': True}},
        {'op': 'change_field', 'model': 'A', 'name': 'n',
         'attrs': {'db_index': False}},
        {'op': 'change_field', 'model': 'A', 'name': 'n',
         'attrs': {'db_index': True}},
        {'op': 'change_field', 'model': 'A', 'name': 'f1',
         'attrs': {'max_length': 50}},
        {'op': 'change_field', 'model': 'A', 'name': 'f2',
         'attrs': {'db_index': True}},
        # ---- 14.. : Meta, models, barrier
        {'op': 'change_meta', 'model': 'A', 'prop': 'unique_together',
         'value': [['f1', 'n']]},
        {'op': 'change_meta', 'model': 'A', 'prop': 'unique_together',
         'value': []},
        {'op': 'change_meta', 'model': 'A', 'prop': 'indexes',
         'value': [{'fields': ['n', 'f1'], 'name': 'ix_enum1'}]},
        {'op': 'change_meta', 'model': 'A', 'prop': 'index_together',
         'value': [['f1', 'n']]},
        {'op': 'rename_model', 'old': 'A', 'new': 'C', 'db_table': 'app1_c'},
        {'op': 'rename_model', 'old': 'C', 'new': 'A', 'db_table': 'app1_a'},
        {'op': 'delete_model', 'model': 'B'},
        {'op': 'add_field', 'model': 'B', 'name': 'f2',
         'fdef': dict(I, null=True)},
        {'op': 'sql', 'tag': 'barrier', 'sql': ['SELECT 1;']},
        # ---- the same field operations on the renamed model
        {'op': 'add_field', 'model': 'C', 'name': 'f3',
         'fdef': dict(I, null=True)},
        {'op': 'delete_field', 'model': 'C', 'name': 'f2'},
        {'op': 'change_field', 'model': 'C', 'name': 'f2',
         'attrs': {'null': False}, 'initial': 5},
        {'op': 'rename_field', 'model': 'C', 'old': 'f2', 'new': 'f3'},
        # ---- 27.. : a second Meta.indexes value, a relation added before
        # the target is renamed, a second rename (chain A -> C -> D)
        {'op': 'change_meta', 'model': 'A', 'prop': 'indexes',
         'value': [{'fields': ['f1'], 'name': 'ix_enum2'}]},
        {'op': 'add_field', 'model': 'B', 'name': 'fk2',
         'fdef': {'kind': 'ForeignKey', 'to': 'app1.A', 'null': True}},
        {'op': 'rename_model', 'old': 'C', 'new': 'D', 'db_table': 'app1_d'},
        # ---- 30.. : a nullable column added with an initial value, a type
        # change of it without one
        {'op': 'add_field', 'model': 'A', 'name': 'f3',
         'fdef': {'kind': 'Char', 'max_length': 10, 'null': True},
         'initial': 'x'},
        {'op': 'change_field', 'model': 'A', 'name': 'f3',
         'attrs': {'null': True}, 'new_kind': 'Text'},
        # ---- 32: the model is deleted under its second new name (needs B's
        # relation to it gone first: template 20 deletes B)
        {'op': 'delete_model', 'model': 'D'},
        # ---- 33.. : a Meta index on a column whose name differs from its
        # field's (B.fk -> fk_id) next to a change of the field's own index;
        # a ChangeField that restates the current field type
        {'op': 'change_meta', 'model': 'B', 'prop': 'indexes',
         'value': [{'fields': ['fk'], 'name': 'ix_enum_fk'}]},
        {'op': 'change_field', 'model': 'B', 'name': 'fk',
         'attrs': {'db_index': False}},
        {'op': 'change_field', 'model': 'A', 'name': 'f1',
         'attrs': {'max_length': 40}, 'restate_type': True},
        {'op': 'change_field', 'model': 'B', 'name': 'fk',
         'attrs': {'db_index': True}},
        # ---- 37.. : the index of an added relation column (fk2 -> fk2_id)
        # dropped later in the run; a RenameField that keeps the column (no
        # SQL of its own) followed by a change under the new name
        {'op': 'change_field', 'model': 'B', 'name': 'fk2',
         'attrs': {'db_index': False}},
        {'op': 'rename_field', 'model': 'A', 'old': 'f2', 'new': 'f3',
         'db_column': 'f2'},
        {'op': 'change_field', 'model': 'A', 'name': 'f3',
         'attrs': {'db_index': True}},
        # ---- 40.. : the name f2 re-used by a nullable column that is then
        # made NOT NULL with *another* initial value than template 8 uses
        {'op': 'add_field', 'model': 'A', 'name': 'f2',
         'fdef': dict(I, null=True)},
        {'op': 'change_field', 'model': 'A', 'name': 'f2',
         'attrs': {'null': False}, 'initial': 9},
    ]
    for e in t:
        e['app'] = 'app1'
    return t


EXTRA_SEQS = [
    [14, 15, 22, 14],           # unique_together set, cleared, SQL, set again
    [14, 22, 15, 22, 14],
    [17, 22, 14, 15, 22, 14],   # the same next to an index_together
    [16, 22, 27, 22, 16],       # Meta.indexes replaced and restored
    [10, 22, 11],               # field index dropped and re-created
    [20, 18, 29, 32],           # renamed twice, then deleted
    [34, 33, 36],               # field index dropped, Meta index on the same
    [34, 22, 33, 36],           # column (fk_id) added, field index restored
    [33, 34, 36],
    [28, 22, 37],               # relation added, barrier, its index dropped
    [38, 22, 39],               # column-keeping rename, barrier, new name used
    [8, 5, 40, 41],             # NOT NULL with 5, renamed away, name re-used,
    [8, 5, 40, 22, 41],         # NOT NULL with 9
    [41, 5, 40, 8],
]
N_FIELD_TEMPLATES = 14      # templates 0..13 only touch fields of model A
TEMPLATES = _T()


def eff_seed(seed):
    return seed % 8


_BASELINE = {}


def baseline(pid):
    """{'i,j,k': [item signature, ...]} of the enumerated sequences that
    disagree on the released tree (committed, read-only)."""
    if pid not in _BASELINE:
        import json
        import os
        path = os.path.join(os.path.dirname(os.path.dirname(os.path.dirname(
            os.path.abspath(__file__)))), 'baselines', '%s_enum.json' % pid)
        try:
            _BASELINE[pid] = json.load(open(path))
        except IOError:
            _BASELINE[pid] = None
    return _BASELINE[pid]


def item_signature(it):
    return '|'.join(str(it.get(k) or '') for k in
                    ('type', 'path', 'exc', 'site', 'attr'))


def apply_baseline(pid, desc, items):
    """Enumerated (deterministic) inputs are judged input by input: an
    enumerated sequence may only show discrepancies that the committed
    baseline lists for exactly that sequence."""
    if desc.get('mode') != 'enum':
        return
    base = baseline(pid)
    if base is None:
        return
    key = ','.join(str(x) for x in desc['seq'])
    allowed = set(base.get(key, []))
    new = sorted(set(item_signature(it) for it in items) - allowed)
    for it in items:
        it['baselined'] = item_signature(it) in allowed
    if new:
        items.append({'type': 'ENUM_BEHAVIOUR_CHANGED', 'seq': key,
                      'new_signatures': new[:8],
                      'baselined_signatures': len(allowed)})


def plan(tier, seed):
    es = eff_seed(seed)
    maxlen, nrand = SIZES[tier]
    descs = []
    n = len(TEMPLATES)
    for L in range(2, maxlen + 1):
        for seq in itertools.product(range(n), repeat=L):
            descs.append({'mode': 'enum', 'seq': list(seq)})
    # a few longer hand-picked sequences (both tiers): a Meta value removed
    # and restored behind a barrier, in one run
    for seq in EXTRA_SEQS:
        descs.append({'mode': 'enum', 'seq': list(seq)})
    if tier == 'thorough':
        # length 4 over the field-only alphabet of model A
        for seq in itertools.product(range(N_FIELD_TEMPLATES), repeat=4):
            descs.append({'mode': 'enum', 'seq': list(seq)})
    descs += [{'mode': 'rand', 'seed': es, 'i': i} for i in range(nrand)]
    return descs


def worker_setup():
    labenv.setup()


def applicable(spec, e):
    app = e['app']
    op = e['op']
    if op == 'sql':
        return True
    if op in ('rename_model',):
        return e['old'] in spec[app] and e['new'] not in spec[app]
    m = e.get('model')
    if m not in spec[app]:
        return False
    if op == 'add_field':
        return S.get_field(spec, app, m, e['name']) is None
    if op == 'delete_field':
        return S.get_field(spec, app, m, e['name']) is not None and \
            e['name'] not in E.meta_field_refs(spec[app][m])
    if op == 'rename_field':
        return S.get_field(spec, app, m, e['old']) is not None and \
            S.get_field(spec, app, m, e['new']) is None and \
            e['old'] not in E.meta_field_refs(spec[app][m])
    if op == 'change_field':
        fd = S.get_field(spec, app, m, e['name'])
        if fd is None:
            return False
        if e.get('new_kind'):
            return fd['kind'] != e['new_kind']
        # only real changes (a no-op ChangeField is legal but uninteresting)
        dflt = {'null': False, 'unique': False,
                'db_index': fd['kind'] == 'ForeignKey'}
        return any(fd.get(k, dflt.get(k)) != v
                   for k, v in e['attrs'].items())
    if op == 'change_meta':
        cur = (spec[app][m].get('meta') or {}).get(e['prop']) or []
        if cur == e['value']:
            return False
        for t in e['value']:
            for f in (t if isinstance(t, list) else t['fields']):
                if S.get_field(spec, app, m, f) is None:
                    return False
        return True
    if op == 'delete_model':
        return not [r for r in E.referrers(spec, app, m)
                    if (r[0], r[1]) != (app, m)]
    return True


def build_case(desc):
    if desc.get('mode') == 'explicit':
        return desc['case']
    if desc['mode'] == 'enum':
        spec = S.clone(ENUM_SPEC)
        classes = S.build_models(spec)
        psig = S.project_sig(classes, apps_order=list(spec))
        edits = []
        for ti in desc['seq']:
            e = dict(TEMPLATES[ti])
            if not applicable(spec, e):
                return None
            m = E.to_mutation(spec, e)
            if siglab.simulate_one(psig, 'app1', m):
                return None
            try:
                nxt = E.apply_edit(spec, e)
                seqcase._validate_spec(nxt)
            except Exception:
                return None
            edits.append(e)
            spec = nxt
        return {'spec0': S.clone(ENUM_SPEC), 'rows': ENUM_ROWS,
                'edits': edits}
    rng = seqcase.rng_for('C03', desc['seed'], desc['i'])
    gen = E.SpecGen(rng, apps=('app1',), rows=True)
    spec0 = gen.gen_spec()
    classes = S.build_models(spec0)
    psig0 = S.project_sig(classes, apps_order=list(spec0))
    rows = seqcase.gen_rows(rng, spec0, max_rows=4)
    length = rng.choice([2, 2, 3, 3, 4, 5, 6, 8, 12])
    ops = ['add_field'] * 5 + ['delete_field'] * 4 + ['rename_field'] * 4 + \
        ['change_field'] * 7 + ['change_meta'] * 3 + ['rename_model'] * 2 + \
        ['delete_model']
    edits, _specs, _rej = seqcase.gen_walk(rng, gen, spec0, length, psig0,
                                           ops=ops, barrier_p=0.06)
    return {'spec0': spec0, 'rows': rows, 'edits': edits}


def observe(desc, with_p=False):
    """Shared with C18: (case, obs) or (None, None) when not a valid case."""
    case = build_case(desc)
    if case is None or len(case['edits']) < 1:
        return None, None
    obs = seqpaths.run_paths(case, with_p=with_p)
    return case, obs


def case_evidence(case, obs):
    """Mechanism evidence shared by all items of the case."""
    edits = case['edits']
    kinds = seqcase.op_kinds(edits)
    fields_seen = {}
    reuse = False
    for e in edits:
        key = (e.get('model'), e.get('name') or e.get('new'))
        if e['op'] in ('add_field', 'rename_field'):
            if key in fields_seen:
                reuse = True
        if e['op'] in ('delete_field', 'rename_field'):
            fields_seen[(e.get('model'), e.get('name') or e.get('old'))] = 1
    return {
        'rules': obs.get('rules') or [],
        'definitions_mutated': bool(obs.get('definitions_mutated')),
        'has_rename_model': any(e['op'] == 'rename_model' for e in edits),
        'has_delete_model': any(e['op'] == 'delete_model' for e in edits),
        'has_rename_field': any(e['op'] == 'rename_field' for e in edits),
        'has_null_change': any('null' in k for k in kinds
                               if k.startswith('change_field')),
        'has_index_change': any(('db_index' in k or 'unique' in k)
                                for k in kinds if k.startswith('change_field')),
        'has_meta_change': any(k.startswith('change_meta') for k in kinds),
        'has_delete_field': any(e['op'] == 'delete_field' for e in edits),
        'has_db_column': any('db_column' in k for k in kinds),
        'has_type_change': any(k == 'change_field:type' for k in kinds),
        'reuses_name': reuse,
        'has_useless_initial': any(e.get('useless_initial') for e in edits),
        'has_barrier': any(e['op'] == 'sql' for e in edits),
        'n_models_touched': len(set((e.get('model') or e.get('old'))
                                    for e in edits if e['op'] != 'sql')),
    }


def pipeline_evidence(obs):
    """Mechanism evidence from the pipeline's own decisions: did it treat
    the target of a RenameModel as a model to create, did the pending filter
    remove mutations."""
    hist = obs['history']
    renamed_to = set()
    for i, sp in enumerate(hist[1:]):
        for m in sp.get('app1', {}):
            if m not in hist[i].get('app1', {}):
                renamed_to.add('app1.%s' % m)
    return {'p_rename_target_new_model': bool(
                renamed_to & set(obs.get('p_new_models') or [])),
            'p_filter_dropped': bool(obs.get('p_filter_dropped'))}


def pipeline_items(obs):
    """Path P (real Evolver pipeline) against path B (bare AppMutator, same
    optimiser) and, where B failed, against path A."""
    items, stats = [], {}
    pe, be = obs.get('p_error'), obs.get('b_error')
    if 'p_error' not in obs:
        return items, stats
    stats['pipeline_runs'] = 1
    if pe:
        it = dict(pe)
        it['type'] = 'P_ERROR'
        it['b_failed'] = bool(be)
        core = (be or {}).get('msg', '')[:60]
        it['same_as_b'] = bool(be) and bool(core) and core in (
            pe.get('msg') or '')
        it.update(pipeline_evidence(obs))
        items.append(it)
        return items, stats
    if be is None and 'b_snap' in obs:
        stats['pipeline_compared'] = 1
        pvb = seqpaths.compare(obs['p_snap'], obs['p_sig'],
                               pipe_only(obs['b_snap']), obs['b_sig'],
                               'P_vs_B')
        if pvb:
            # where the pipeline differs from the bare optimised run but
            # agrees with the one-at-a-time run (its pending filter skipped
            # mutations of a model that ends up unchanged) it does what the
            # property asks for: a difference to B only counts if the same
            # kind of difference (same table) also separates P from A
            pva = seqpaths.compare(
                obs['p_snap'], obs['p_sig'], pipe_only(obs['a_snap']),
                obs['a_sig'], 'P_vs_A')
            sep = set((it['type'], it.get('table')) for it in pva)
            kept = [it for it in pvb if (it['type'], it.get('table')) in sep]
            if len(kept) < len(pvb):
                stats['pipeline_right_where_batch_differs'] = 1
            pvb = kept
        items += pvb
    else:
        stats['pipeline_compared_with_a'] = 1
        for it in seqpaths.compare(obs['p_snap'], obs['p_sig'],
                                   pipe_only(obs['a_snap']), obs['a_sig'],
                                   'P_vs_A'):
            it['b_failed'] = True
            items.append(it)
    # mechanism evidence (pipeline only)
    ev = pipeline_evidence(obs)
    for it in items:
        it.update(ev)
    want = [('app1', 'e1')] + ([('app1', 'e2')]
                                if len(obs['history']) - 1 > 2 else [])
    if [tuple(x) for x in obs.get('p_labels') or []] != want:
        items.append({'type': 'P_LABELS', 'got': obs.get('p_labels'),
                      'expected': want})
    return items, stats


def pipe_only(snap):
    return {t: e for t, e in snap.items() if not t.startswith('django_')}


def run_case(desc):
    case, obs = observe(desc, with_p=True)
    if case is None:
        return {'key': S.canon(desc), 'nontrivial': False, 'items': [],
                'stats': {'invalid_sequences': 1}, 'case': None}
    edits = case['edits']
    stats = {'valid_sequences': 1, 'mode_' + desc.get('mode', 'x'): 1,
             'len_%d' % min(len(edits), 12): 1}
    items = []
    if obs.get('a_error'):
        stats['skipped_a_failed'] = 1
        return {'key': S.canon([case['spec0'], edits]), 'nontrivial': False,
                'items': [], 'stats': stats, 'case': case}
    ev = case_evidence(case, obs)
    for r in ev['rules']:
        stats['rule_' + r] = 1
    stats['merge_pairs'] = obs.get('merge_pairs') or {}
    if obs.get('b_error'):
        it = dict(obs['b_error'])
        it['type'] = 'B_ERROR'
        items.append(it)
    else:
        stats['paths_compared'] = 1
        items += seqpaths.compare(obs['b_snap'], obs['b_sig'],
                                  obs['a_snap'], obs['a_sig'], 'B_vs_A')
        if obs.get('b2_error'):
            it = dict(obs['b2_error'])
            it['type'] = 'B2_ERROR'
            items.append(it)
        elif 'b2_snap' in obs:
            stats['reprocess_compared'] = 1
            for it in seqpaths.compare(obs['b2_snap'], obs['b2_sig'],
                                       obs['b_snap'], obs['b_sig'],
                                       'B2_vs_B'):
                items.append(it)
    pitems, pstats = pipeline_items(obs)
    items += pitems
    stats.update(pstats)
    for d in obs.get('definitions_mutated') or []:
        d = dict(d)
        d['type'] = 'DEFINITION_MUTATED'
        d['attr'] = d.get('attr') or 'hint_text'
        items.append(d)
    history = obs['history']
    oracle.attribute([i for i in items if 'table' in i], history[-1],
                     history, [])
    for it in items:
        it.pop('rebuilt', None)
        it.update(ev)
    apply_baseline('C03', desc, items)
    nontrivial = bool(ev['rules']) or sum(
        (obs.get('merge_pairs') or {}).values()) >= 1
    return {'key': S.canon([case['spec0'], edits]), 'nontrivial': nontrivial,
            'items': items, 'stats': stats,
            'case': dict(case, ops=seqcase.op_kinds(edits))}
