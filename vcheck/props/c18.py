"""C18 - batched changes rewrite each table once, never more than unbatched.

Trace monitor: a rebuild of table t is the TEMP_TABLE dance ending in
ALTER TABLE "TEMP_TABLE" RENAME TO "t".  Rebuilds are counted per table (names
followed through renames) on the statement trace of the optimised run (path
B) and of the one-mutation-at-a-time run (path A) of the same sequence.
"""
from .. import labenv, seqcase, seqpaths
from .. import specs as S
from . import c03

ID = 'C18'
LEVEL = 'exploration'
RULE = ('same sequence universe as C03 (small-scope enumeration over 30 '
        'templates + random walks). Per case and table: rebuilds(B) <= '
        'rebuilds(A); and rebuilds(B) <= number of maximal mergeable runs '
        '(consecutive non-M2M AddField/DeleteField, ChangeField without '
        'type or db_column change, ChangeMeta on one model) that needed a '
        'rebuild in A + rebuilds A spent on the non-mergeable mutations of '
        'that table. non-trivial = at least one rebuild in either run; '
        'distinct = hash of (start spec, edits).')
ASSUMPTIONS = [
    'SQLite backend; a rebuild is recognised by the TEMP_TABLE rename',
    'bare AppMutator level; sequences spread over several evolution files '
    'reach the same AppMutator.run_mutations call in the task pipeline',
    'cases where either path fails give no count and are skipped (they '
    'are C01/C03 findings)',
]
FLOORS = {'quick': {'nontrivial': 80, 'rebuilds_seen': 200},
          'thorough': {'nontrivial': 800, 'rebuilds_seen': 2000}}
SIZES = c03.SIZES
TIMEOUT = c03.TIMEOUT

eff_seed = c03.eff_seed
plan = c03.plan


def worker_setup():
    labenv.setup()


def final_table(history, edits, i, app, m):
    name = m
    for e in edits[i:]:
        if e['op'] == 'rename_model' and e['app'] == app and e['old'] == name:
            name = e['new']
        elif e['op'] == 'delete_model' and e['app'] == app and \
                e.get('model') == name:
            return None
    last = history[-1]
    if name in last.get(app, {}):
        return S.model_table(last, app, name)
    return None


def run_case(desc):
    case, obs = c03.observe(desc)
    if case is None:
        return {'key': S.canon(desc), 'nontrivial': False, 'items': [],
                'stats': {'invalid_sequences': 1}, 'case': None}
    edits = case['edits']
    stats = {'valid_sequences': 1}
    key = S.canon([case['spec0'], edits])
    if obs.get('a_error') or obs.get('b_error'):
        stats['skipped_path_failed'] = 1
        return {'key': key, 'nontrivial': False, 'items': [],
                'stats': stats, 'case': case}
    history = obs['history']
    a, b = obs['a_rebuilds'], obs['b_rebuilds']
    stats['rebuilds_seen'] = sum(a.values()) + sum(b.values())
    stats['rebuilds_a'] = sum(a.values())
    stats['rebuilds_b'] = sum(b.values())
    stats['merge_pairs'] = obs.get('merge_pairs') or {}
    stats['tables_counted'] = len(set(a) | set(b))
    items = []
    renames = any(e['op'] in ('rename_model', 'delete_model') or (
        e['op'] == 'rename_field' and e.get('db_table')) for e in edits)
    if renames:
        # collapsed RenameModels make table names of the two traces
        # incomparable: compare the totals
        if sum(b.values()) > sum(a.values()):
            items.append({'type': 'REBUILD_MORE_THAN_UNBATCHED',
                          'table': '*', 'a': sum(a.values()),
                          'b': sum(b.values())})
    else:
        for t in sorted(set(a) | set(b)):
            if b.get(t, 0) > a.get(t, 0):
                items.append({'type': 'REBUILD_MORE_THAN_UNBATCHED',
                              'table': t, 'a': a.get(t, 0),
                              'b': b.get(t, 0)})
    # (ii) one rebuild per mergeable run
    runs = seqpaths.mergeable_runs(edits, history)
    in_run = set(i for _a, _m, idx in runs for i in idx)
    allowed = {}
    per = obs['a_per_mut_rebuilds']
    for app, m, idx in runs:
        t = final_table(history, edits, idx[0], app, m)
        if t is None:
            continue
        if any(per[i] for i in idx):
            allowed[t] = allowed.get(t, 0) + 1
            stats['mergeable_runs_with_rebuild'] = stats.get(
                'mergeable_runs_with_rebuild', 0) + 1
            stats['run_len_%d' % min(len(idx), 6)] = stats.get(
                'run_len_%d' % min(len(idx), 6), 0) + 1
    for i, e in enumerate(edits):
        if i in in_run or not per[i]:
            continue
        m = e.get('model') or e.get('new')
        t = final_table(history, edits, i + 1, e['app'], m) if m else None
        if t is not None:
            allowed[t] = allowed.get(t, 0) + len(per[i])
    unmerged = sorted(k for k, v in (obs.get('merge_pairs') or {}).items()
                      if k.endswith('|0'))
    kinds = seqcase.op_kinds(edits)
    for t, n in sorted(b.items()):
        if renames:
            break
        if t in allowed and n > allowed[t]:
            items.append({'type': 'RUN_NOT_SINGLE_REBUILD', 'table': t,
                          'allowed': allowed[t], 'b': n,
                          'unmerged_pairs': unmerged, 'ops': kinds,
                          'rules': obs.get('rules')})
    ev = c03.case_evidence(case, obs)
    for it in items:
        it.update(ev)
        it['rules'] = obs.get('rules')
        it['unmerged_pairs'] = unmerged
    c03.apply_baseline('C18', desc, items)
    nontrivial = stats['rebuilds_seen'] > 0
    return {'key': key, 'nontrivial': nontrivial, 'items': items,
            'stats': stats, 'case': dict(case, ops=kinds,
                                         rebuilds={'A': a, 'B': b})}
