"""C17 - lifecycle signals are paired and tell the truth about the run.

Offline trace checker over the interleaved signal / statement / transaction
log of real Evolver.evolve() runs: fault-free upgrades, runs with nothing to
do, runs with an injected failure at every statement index, and the retries.
"""
from .. import faultlab, labenv, projlab, seqcase
from .. import specs as S

ID = 'C17'
LEVEL = 'fault_enumeration'
RULE = ('cases = the C07 upgrade generator (single-batch upgrades incl. new '
        'models); per upgrade the clean run, a run with nothing to do, every '
        'fault index k <= N and the retry after each fault are checked '
        'against the signal specification (evolving once and before any '
        'change; exactly one of evolved / evolving_failed; evolved iff the '
        'run returned normally and its labels are recorded; applying_* / '
        'creating_models paired with their counterpart unless the run fails '
        'in between, equal payload; every evolution statement lies inside a '
        'pair of the app that owns the table; the post_migrate lock is '
        'released). non-trivial run = at least one signal and one mutating '
        'statement or an injected fault; distinct = (upgrade hash, k, phase).')
ASSUMPTIONS = [
    'SQLite; Evolver API boundary (Evolver.evolve())',
    'statements are attributed to apps by the tables the generated spec '
    'says each app owns (TEMP_TABLE belongs to the rebuild in progress)',
]
FLOORS = {'quick': {'nontrivial': 100, 'runs_checked': 150,
                    'pairs_checked': 100, 'payloads_checked': 20,
                    'created_pairs_checked': 100,
                    'prepare_fault_runs': 60, 'command_fault_runs': 40},
          'thorough': {'nontrivial': 1500, 'runs_checked': 2000,
                       'pairs_checked': 1500, 'payloads_checked': 250,
                       'created_pairs_checked': 1200,
                       'prepare_fault_runs': 600,
                       'command_fault_runs': 400}}
SIZES = {'quick': 64, 'thorough': 600}
TIMEOUT = {'quick': 170, 'thorough': 1700}
HANDOVERS = {'quick': 16, 'thorough': 150}
SPLITS = {'quick': 24, 'thorough': 240}
PAIRS = {'applying_evolution': 'applied_evolution',
         'applying_migration': 'applied_migration',
         'creating_models': 'created_models'}


def eff_seed(seed):
    return seed % 8


def plan(tier, seed):
    es = eff_seed(seed)
    return [{'mode': 'upgrade', 'seed': es, 'i': i}
            for i in range(SIZES[tier])] + \
        [{'mode': 'handover', 'seed': es, 'i': i}
         for i in range(HANDOVERS[tier])] + \
        [{'mode': 'split', 'seed': es, 'i': i}
         for i in range(SPLITS[tier])]


def worker_setup():
    labenv.setup()


def owned(h, app):
    t = set()
    for sp in h.specs:
        for m in sp.get(app, {}):
            t.update(S.owned_tables(sp, app, m))
    return t


def check_run(rec, phase, h, labels_before, items, stats):
    """Apply the trace specification to one run record."""
    import re
    evs = rec['events']
    ctx = {'phase': phase, 'k': rec.get('k')}
    stats['runs_checked'] = stats.get('runs_checked', 0) + 1
    sigs = [e for e in evs if e['k'] == 'signal']
    names = [e['name'] for e in sigs]
    returned = rec['returned']
    # (a) evolving at most once and before any change of the run
    if names.count('evolving') > 1:
        items.append(dict(ctx, type='EVOLVING_TWICE'))
    started = False
    seen_evolving = False
    for e in evs:
        if e['k'] == 'mark' and e['what'] in ('evolve_start',
                                              'prepare_start'):
            started = True
        elif e['k'] == 'signal' and e['name'] == 'evolving':
            seen_evolving = True
        elif started and e['k'] == 'sql' and e['ok'] and not seen_evolving:
            items.append(dict(ctx, type='CHANGE_BEFORE_EVOLVING',
                              sql=e['sql'][:100], cls=e['cls']))
            break
    # (b) exactly one terminal signal, truthful
    terms = [n for n in names if n in ('evolved', 'evolving_failed')]
    if 'evolving' in names:
        if len(terms) != 1:
            items.append(dict(ctx, type='TERMINAL_SIGNALS', got=terms))
        elif (terms[0] == 'evolved') != bool(returned):
            items.append(dict(ctx, type='TERMINAL_SIGNAL_LIES', got=terms[0],
                              returned=bool(returned)))
        if terms and names.index(terms[0]) < names.index('evolving'):
            items.append(dict(ctx, type='TERMINAL_BEFORE_EVOLVING'))
    elif terms:
        items.append(dict(ctx, type='TERMINAL_WITHOUT_EVOLVING', got=terms))
    elif not returned and started:
        stats['failed_before_evolving'] = stats.get(
            'failed_before_evolving', 0) + 1
    # (c) pairing + payload
    # A closing signal is matched with the oldest open signal of its kind
    # that names the same app / migration (the models of several apps are
    # announced up-front and confirmed afterwards, in the same order).
    open_ = []
    overlapped = set()
    for e in evs:
        if e['k'] == 'signal' and e['name'] in PAIRS:
            if open_:
                kinds = sorted(set([o['name'] for o in open_] + [e['name']]))
                if tuple(kinds) not in overlapped:
                    overlapped.add(tuple(kinds))
                    items.append(dict(
                        ctx, type='OVERLAPPING_PAIRS', names=kinds,
                        all_creating_models=kinds == ['creating_models']))
            open_.append(e)
        elif e['k'] == 'signal' and e['name'] in PAIRS.values():
            stats['pairs_checked'] = stats.get('pairs_checked', 0) + 1
            cands = [o for o in open_ if PAIRS[o['name']] == e['name']]
            same = [o for o in cands
                    if all(o.get(f) == e.get(f) for f in ('app', 'migration'))]
            if not cands:
                items.append(dict(ctx, type='APPLIED_WITHOUT_APPLYING',
                                  name=e['name']))
            else:
                o = (same or cands)[0]
                open_.remove(o)
                for f in ('evolutions', 'app', 'migration', 'model_names'):
                    if o.get(f) != e.get(f):
                        items.append(dict(ctx, type='PAIR_PAYLOAD_DIFFERS',
                                          name=e['name'], field=f))
    if open_ and returned:
        items.append(dict(ctx, type='APPLYING_NEVER_APPLIED',
                          names=[o['name'] for o in open_]))
    if len(open_) > 1:
        items.append(dict(ctx, type='NESTED_OPEN_PAIRS',
                          names=[o['name'] for o in open_],
                          all_creating_models=all(
                              o['name'] == 'creating_models'
                              for o in open_)))
    # (d) every statement of the evolution SQL lies inside a pair whose app
    #     owns the table
    cur = None
    for e in evs:
        if e['k'] == 'signal' and e['name'] in PAIRS:
            cur = e
        elif e['k'] == 'signal' and e['name'] in PAIRS.values():
            cur = None
        elif e['k'] == 'sql' and e.get('cls') != 'other' and \
                'n' in e or (e['k'] == 'sql' and e.get('inrun')):
            pass
    inrun_seen = 0
    cur = None
    for e in evs:
        if e['k'] == 'signal' and e['name'] in PAIRS:
            cur = e
            continue
        if e['k'] == 'signal' and e['name'] in PAIRS.values():
            cur = None
            continue
        if e['k'] != 'sql' or not e.get('inrun'):
            continue
        inrun_seen += 1
        if cur is None:
            items.append(dict(ctx, type='STATEMENT_OUTSIDE_PAIR',
                              sql=e['sql'][:100], cls=e['cls']))
            continue
        if cur['name'] == 'applying_evolution' and cur.get('app'):
            m = re.match(
                r'\s*(?:CREATE (?:UNIQUE )?INDEX "[^"]+" ON|CREATE TABLE|'
                r'ALTER TABLE|DROP TABLE|INSERT INTO|UPDATE|DELETE FROM) '
                r'"([^"]+)"', e['sql'], re.I)
            target = m.group(1) if m else None
            known = set().union(*[owned(h, a) for a in h.specs[0]])
            # the table the statement operates on must belong to the app
            # named by the open pair (TEMP_TABLE = rebuild in progress)
            if target and target in known and \
                    target not in owned(h, cur['app']):
                items.append(dict(ctx, type='STATEMENT_IN_WRONG_PAIR',
                                  app=cur['app'], tables=[target]))
    stats['inrun_statements_attributed'] = stats.get(
        'inrun_statements_attributed', 0) + inrun_seen
    # (d2) creating_models / created_models name exactly the models whose
    #      tables are created between them
    cur = None
    made = []
    opens = {}
    for e in evs:
        if e['k'] == 'signal' and e['name'] == 'creating_models':
            if not opens:
                made = []
            opens[e.get('app')] = e
        elif e['k'] == 'sql' and opens and e['ok']:
            m = re.match(r'\s*CREATE TABLE "([^"]+)"', e['sql'])
            if m and m.group(1) != 'TEMP_TABLE':
                made.append(m.group(1))
        elif e['k'] == 'signal' and e['name'] == 'created_models' and \
                e.get('app') in opens:
            cur = opens.pop(e.get('app'))
            app = cur.get('app')
            names = cur.get('model_names') or []
            if app in h.specs[-1] and hasattr(h, 'steps') and \
                    not getattr(h, 'is_shim', False):
                want = set()
                ok_names = True
                for n in names:
                    if n not in h.specs[-1][app]:
                        ok_names = False
                        continue
                    want.update(S.owned_tables(h.specs[-1], app, n))
                stats['created_pairs_checked'] = stats.get(
                    'created_pairs_checked', 0) + 1
                got = set(t for t in made)
                if not ok_names or not want <= got or \
                        (got - want) & set(
                            t for m2 in h.specs[-1][app]
                            for t in S.owned_tables(h.specs[-1], app, m2)):
                    items.append(dict(
                        ctx, type='CREATED_MODELS_PAYLOAD', app=app,
                        named=sorted(names), created=sorted(got),
                        expected_tables=sorted(want)))
            cur = None
    # (e) lock released
    if rec['lock_after'] != rec['lock_before']:
        items.append(dict(ctx, type='EVOLVE_LOCK_LEAKED',
                          before=rec['lock_before'], after=rec['lock_after']))
    # (f) evolved <=> the carried evolutions are recorded
    carried = set()
    for e in sigs:
        if e['name'] == 'applied_evolution':
            carried.update(tuple(x) for x in e.get('evolutions') or [])
    recorded = set(tuple(x) for x in rec.get('recorded_labels') or [])
    before = set(tuple(x) for x in labels_before)
    if 'evolved' in names:
        missing = carried - recorded
        if missing:
            items.append(dict(ctx, type='EVOLVED_BUT_NOT_RECORDED',
                              missing=sorted(missing)))
    if not returned and phase in ('fault', 'prep'):
        new = recorded - before
        if new:
            items.append(dict(ctx, type='FAILED_RUN_RECORDED_LABELS',
                              labels=sorted(new)))
    return bool(sigs) and (inrun_seen > 0 or phase in ('fault', 'prep'))


class _Shim(object):
    pass


def run_handover(desc):
    """The C10 hand-over projects (evolutions + MoveToDjangoMigrations +
    real migrations) under the same fault loop."""
    from . import c10
    rng = seqcase.rng_for('C17h', desc['seed'], desc['i'])
    proj = projlab.Project()
    try:
        # every third project hands over without marking the initial
        # migration (it is then soft-applied through the executor)
        unmarked = desc['i'] % 3 == 1
        b, early = c10.build(rng, proj, desc,
                             force_mark=[] if unmarked else None)
        if early is not None:
            early['stats'] = {'skipped_setup_failed': 1}
            return None, early, None
        start = rng.choice(['fresh', 'evolved', 'evolved'])
        if unmarked:
            start = 'evolved'
        if start == 'evolved':
            v0 = rng.randint(0, b['k'])
            ev = proj.run('evolve_api', version=v0, db='base.db',
                          apps=b['apps'], migmods=b['migmods_off'],
                          app_versions=b['av'])
            if ev.get('driver_error') or not ev['outcome']['ok']:
                return None, {'key': b['key'], 'nontrivial': False,
                              'items': [], 'case': None,
                              'stats': {'skipped_setup_failed': 1}}, None
            proj.insert_rows(seqcase.gen_rows(
                rng, {'app1': b['versions'][v0]}, max_rows=2), 'base.db')
        else:
            open(proj.path('base.db'), 'w').close()
        res = proj.run('fault_loop', version=b['vfinal'], db='work.db',
                       apps=b['apps'], migmods=b['migmods_on'],
                       app_versions=b['av'],
                       args={'base_db': proj.path('base.db'), 'max_k': 40,
                             'scope': 'all'}, timeout=300)
    finally:
        proj.cleanup()
    h = _Shim()
    h.is_shim = True
    h.specs = [{'app1': v, 'app2': {'Z': {'fields': [], 'meta': {}}}}
               for v in b['versions']]
    h.steps = [[]]
    case = {'handover': True, 'k': b['k'], 'm': b['m'], 'mark': b['mark'],
            'start': start, 'migrations': b['expected_names'],
            'evolutions': [e[0] for e in b['evolutions']],
            'new_models': [] if start == 'evolved' else ['*']}
    return h, res, (case, S.canon([b['key'], start, 'handover']))


def run_split(desc):
    """Projects of the C09 migration pool (evolutions of one app separated
    by migrations they have to wait for): what applying_evolution /
    applied_evolution carry must be the evolutions whose SQL runs between
    them.  Fault-free runs only."""
    import re
    from . import c09_pipeline as P
    rng = seqcase.rng_for('C17s', desc['seed'], desc['i'])
    g = P.gen_mig_cross(rng) if desc['i'] % 3 == 2 else P.gen_mig(rng)
    # (every evolution adds its column here: an evolution without SQL
    # cannot be matched against the statements between the signals)
    g['empty_last'] = {}
    key = S.canon(['split', desc['seed'], desc['i']])
    proj = projlab.Project()
    items, stats = [], {'split_projects': 1}
    try:
        up, err = P.write_and_install(proj, g)
        if up is None:
            return {'key': key, 'nontrivial': False, 'items': [],
                    'stats': {'skipped_setup_failed': 1}, 'case': None}
        ev = proj.run('evolve_api', **up)
    finally:
        proj.cleanup()
    if ev.get('driver_error') or not ev['outcome']['ok']:
        return {'key': key, 'nontrivial': False, 'items': [],
                'stats': {'skipped_clean_failed': 1}, 'case': None}
    have = {a: set(range(1, g['applied_e'][a] + 1)) for a in g['eapps']}
    cur, introduced, temp = None, set(), None
    pairs = 0
    for e in ev['events']:
        if e['kind'] == 'signal' and e['name'] == 'applying_evolution':
            cur, introduced = e, set()
        elif e['kind'] == 'signal' and e['name'] == 'applied_evolution' \
                and cur is not None:
            pairs += 1
            app = cur.get('app')
            payload = sorted(x[1] for x in cur.get('evolutions') or []
                             if x[0] == app)
            executed = sorted('e%d' % k for k in introduced)
            stats['payloads_checked'] = stats.get('payloads_checked', 0) + 1
            if payload != executed:
                items.append({'type': 'PAYLOAD_NOT_WHAT_WAS_EXECUTED',
                              'phase': 'clean', 'app': app,
                              'payload': payload, 'executed': executed,
                              'app_split_over_batches': True})
            have.setdefault(app, set()).update(introduced)
            cur = None
        elif e['kind'] == 'sql' and cur is not None and e.get('ok') and \
                e.get('mutating'):
            app = cur.get('app')
            m = re.match(r'\s*ALTER TABLE "%s_m" ADD COLUMN "x(\d)"' % app,
                         e['sql'])
            if m:
                introduced.add(int(m.group(1)))
            elif e['sql'].lstrip().startswith('CREATE TABLE "TEMP_TABLE"'):
                temp = set(int(x) for x in re.findall(r'"x(\d)"', e['sql']))
            elif re.match(r'\s*ALTER TABLE "TEMP_TABLE" RENAME TO "%s_m"'
                          % app, e['sql']) and temp is not None:
                introduced |= temp - have.get(app, set())
                temp = None
    return {'key': key, 'nontrivial': pairs > 0, 'items': items,
            'stats': stats, 'weight': max(1, pairs),
            'nontrivial_weight': pairs,
            'case': {'split': True, 'applied_e': g['applied_e'],
                     'nevo': g['nevo'],
                     'evo_deps': {'%s:%s:%s' % k: v
                                  for k, v in g['evo_deps'].items()}}}


def run_case(desc):
    if desc.get('mode') == 'split':
        return run_split(desc)
    if desc.get('mode') == 'handover':
        h, res, extra = run_handover(desc)
        if h is None:
            return res
        case, key = extra
        stats, items = {'handovers': 1}, []
    else:
        # every third upgrade is driven through the management command,
        # the others through the API with additional faults while the run
        # is being prepared
        via = 'cmd' if desc['i'] % 3 == 1 else 'api'
        h, res = faultlab.run_upgrade(
            'C17', desc, max_k=40, scope='all', with_rename=True,
            extra_args={'via': via, 'prep_faults': [1, 2, 4, 7, 11, 16]})
        case = faultlab.case_of(h)
        key = S.canon([h.specs, h.steps])
        stats, items = {'upgrades': 1}, []
    if res.get('install_error') or res.get('driver_error'):
        return {'key': key, 'nontrivial': False, 'items': [],
                'stats': {'skipped_setup_failed': 1}, 'case': case,
                'harness_error': None if res.get('install_error') else
                str(res)[:800]}
    if not res['clean']['outcome']['ok']:
        return {'key': key, 'nontrivial': False, 'items': [],
                'stats': {'skipped_clean_failed': 1}, 'case': case}
    lb = res.get('labels_before') or []
    nt = 0
    nt += check_run(res['clean'], 'clean', h, lb, items, stats)
    if res.get('noop') and res['noop'].get('required'):
        # the upgrade did not bring the database to the models (a matter of
        # C01 / C03 / C04, e.g. RenameModel chains that reuse a name): the
        # second run is then not a run with nothing to do
        stats['noop_still_required'] = 1
    elif res.get('noop'):
        check_run(res['noop'], 'noop', h, res['clean']['recorded_labels'],
                  items, stats)
        if res.get('noop_changed'):
            items.append({'type': 'NOOP_RUN_CHANGED_DB', 'phase': 'noop'})
    for rec in res.get('runs', []):
        if not rec.get('fired'):
            continue
        nt += check_run(rec, 'fault', h, lb, items, stats)
        stats['fault_runs'] = stats.get('fault_runs', 0) + 1
        if rec.get('via') == 'cmd':
            stats['command_fault_runs'] = stats.get(
                'command_fault_runs', 0) + 1
    for rec in res.get('prep_runs', []):
        if not rec.get('fired'):
            continue
        nt += check_run(rec, 'prep', h, lb, items, stats)
        stats['prepare_fault_runs'] = stats.get('prepare_fault_runs', 0) + 1
    for it in items:
        it['new_models'] = bool(case['new_models'])
        if case.get('handover'):
            it['handover'] = True
            it['mark_has_initial'] = '0001_initial' in case['mark']
            it['start'] = case['start']
    return {'key': key, 'nontrivial': nt > 0, 'items': items,
            'stats': stats, 'case': case,
            'weight': stats.get('runs_checked', 1),
            'nontrivial_weight': nt}
