"""Developer tool: bucket unexplained discrepancy items of a run by mechanism.
  python -m vcheck.triage <ID> quick|thorough [seed]
"""
import collections
import json
import os
import sys

from . import main as M

KEYS = tuple(os.environ.get('KEYS', 'type,origin,rebuilt,table_kind,exc,site,stage,op,rule,kind,path,attr,what,family').split(','))


def run(pid, tier, seed, show=2):
    os.environ['VERIF_SEED'] = str(seed)
    mod = M.prop_module(pid)
    findings = M.load_findings(pid)
    if hasattr(mod, 'ensure'):
        mod.ensure()
    descs = mod.plan(tier, seed)
    results, lost = M.run_workers(pid, descs, 3000)
    if hasattr(mod, 'post'):
        mod.post(results)
    buckets = collections.OrderedDict()
    herr = [r for r in results if r.get('harness_error')]
    for r in results:
        un, _h = M.classify(r.get('items') or [], findings)
        for it in un:
            k = tuple((k, json.dumps(it.get(k), default=str))
                      for k in KEYS if k in it)
            buckets.setdefault(k, []).append((r, it))
    print('%d results, %d lost, %d harness errors, %d buckets' % (
        len(results), len(lost), len(herr), len(buckets)))
    for h in herr[:3]:
        print('HARNESS', json.dumps(h['desc']), h['harness_error'][-int(os.environ.get('HW', 300)):])
    for x in lost[:2]:
        print('LOST', x)
    for k, lst in sorted(buckets.items(), key=lambda kv: -len(kv[1])):
        print('=' * 80)
        print(len(lst), {a: b for a, b in k})
        for r, it in lst[:show]:
            print('   desc=%s' % json.dumps(r['desc']))
            print('   item=%s' % json.dumps(it, default=str)[:int(os.environ.get('W', 500))])
            if os.environ.get('OPS'):
                from . import seqcase
                c = r.get('case') or {}
                if c.get('edits') is not None:
                    print('   ops=%s' % seqcase.op_kinds(c['edits']))
    return results


if __name__ == '__main__':
    run(sys.argv[1].upper(), sys.argv[2] if len(sys.argv) > 2 else 'quick',
        int(sys.argv[3]) if len(sys.argv) > 3 else 0)
