"""Parent side of the fault enumeration (C07, C17): generate a single-batch
upgrade, install V0 on disk, insert rows, run the in-process fault loop at V1
and return its records."""
from . import histories, projlab, seqcase
from . import specs as S


def run_upgrade(prop, desc, max_k=60, scope='run_sql', with_rename=False,
                extra_args=None):
    rng = seqcase.rng_for(prop, 'upgrade', desc['seed'], desc['i'])
    two = rng.random() < 0.3
    h = histories.gen_upgrade(rng, two_apps=two, with_rename=with_rename)
    apps = ('app1', 'app2') if two else ('app1',)
    proj = projlab.Project()
    try:
        histories.write_project(proj, h, apps)
        ev = proj.run('evolve_api', version=0, db='base.db')
        if ev.get('driver_error') or not ev['outcome']['ok']:
            return h, {'install_error': str(ev.get('outcome') or ev)[:500]}
        rows = seqcase.gen_rows(rng, h.specs[0], max_rows=3)
        proj.insert_rows(rows, 'base.db')
        res = proj.run('fault_loop', version=1, db='work.db',
                       args=dict({'base_db': proj.path('base.db'),
                                  'max_k': max_k, 'scope': scope},
                                 **(extra_args or {})),
                       timeout=300)
        return h, res
    finally:
        proj.cleanup()


def case_of(h):
    return {'specs': h.specs, 'steps': h.steps, 'texts': h.texts,
            'ops': seqcase.op_kinds(h.steps[0]),
            'new_models': sorted(
                '%s.%s' % (a, m) for a, mods in h.specs[1].items()
                for m in mods if m not in h.specs[0].get(a, {}))}
