"""projlab driver: runs inside a generated project (one fresh interpreter per
step).  Attaches the monitors, performs $PL_ACTION through the real management
commands / Evolver API and writes the observed events to $PL_OUT.

Observation points (no hooks in /repo): connection.execute_wrappers on every
alias (statement trace incl. BEGIN/SAVEPOINT), instance wrappers around
DatabaseWrapper._commit/_rollback (transaction trace), receivers on the nine
django_evolution signals, and the outcome of the boundary call.
"""
import io
import json
import os
import re
import sys
import traceback

MUTATING_RE = re.compile(
    r'^\s*(CREATE|ALTER|DROP|INSERT|UPDATE|DELETE|REPLACE|VACUUM)\b', re.I)

EVENTS = []
_seq = [0]


def emit(kind, **kw):
    _seq[0] += 1
    kw['seq'] = _seq[0]
    kw['kind'] = kind
    EVENTS.append(kw)
    return kw


def _jsonable(params):
    if params is None:
        return None
    out = []
    for p in params:
        if isinstance(p, (int, float, str, type(None))):
            out.append(p)
        else:
            out.append(repr(p))
    return out


class Fault(Exception):
    pass


FAULT = {'at': None, 'count': 0, 'fired': None, 'armed': False,
         'match': None, 'any': False}
INRUN = {'on': False}


def statement_wrapper(alias):
    def wrapper(execute, sql, params, many, context):
        mut = bool(MUTATING_RE.match(sql))
        ev = emit('sql', alias=alias, sql=sql, params=_jsonable(params),
                  ok=True, mutating=mut,
                  inrun=bool(sys.modules[__name__].INRUN['on']))
        if (mut or FAULT.get('any')) and FAULT['armed'] and (
                FAULT['match'] is None or FAULT['match'](sql)):
            FAULT['count'] += 1
            ev['n'] = FAULT['count']
            if FAULT['at'] is not None and FAULT['count'] == FAULT['at']:
                from django.db.utils import OperationalError
                ev['ok'] = False
                ev['injected'] = True
                FAULT['fired'] = sql
                raise OperationalError('injected fault at #%d' % FAULT['at'])
        try:
            return execute(sql, params, many, context)
        except Exception as e:
            ev['ok'] = False
            ev['exc'] = '%s: %s' % (type(e).__name__, str(e)[:200])
            raise
    return wrapper


def attach_connection(alias):
    from django.db import connections
    conn = connections[alias]
    conn.execute_wrappers.append(statement_wrapper(alias))
    cls = type(conn)

    def _commit():
        emit('commit', alias=alias)
        return cls._commit(conn)

    def _rollback():
        emit('rollback', alias=alias)
        return cls._rollback(conn)
    conn._commit = _commit
    conn._rollback = _rollback


def wrap_run_sql():
    """Flag statements issued by SQLExecutor.run_sql(execute=True)."""
    from django_evolution.utils import sql as sqlmod
    orig = sqlmod.SQLExecutor.run_sql
    if getattr(orig, '_vcheck', False):
        return

    def run_sql(self, sql, capture=False, execute=False):
        prev = INRUN['on']
        INRUN['on'] = bool(execute)
        try:
            return orig(self, sql, capture=capture, execute=execute)
        finally:
            INRUN['on'] = prev
    run_sql._vcheck = True
    sqlmod.SQLExecutor.run_sql = run_sql


def wrap_graph():
    """Record the node order the real EvolutionGraph yields."""
    from django_evolution.utils.graph import EvolutionGraph
    orig = EvolutionGraph.iter_batches

    def iter_batches(self):
        keys = []
        for batch_type, nodes in orig(self):
            keys += [n.key for n in nodes]
            yield batch_type, nodes
        emit('graph', keys=keys)
    EvolutionGraph.iter_batches = iter_batches


SIGNALS = ('evolving', 'evolved', 'evolving_failed', 'applying_evolution',
           'applied_evolution', 'applying_migration', 'applied_migration',
           'creating_models', 'created_models')


def attach_signals():
    from django_evolution import signals
    for name in SIGNALS:
        sig = getattr(signals, name)

        def receiver(sender=None, _name=name, **kw):
            payload = {}
            if 'evolutions' in kw:
                payload['evolutions'] = [
                    [e.app_label, e.label] for e in kw['evolutions']]
            if 'task' in kw:
                payload['app'] = getattr(kw['task'], 'app_label', None)
            if 'migration' in kw:
                m = kw['migration']
                payload['migration'] = [m.app_label, m.name]
            if 'model_names' in kw:
                payload['model_names'] = sorted(kw['model_names'])
            if 'app_label' in kw:
                payload['app'] = kw['app_label']
            if 'exception' in kw:
                payload['exception'] = type(kw['exception']).__name__
            emit('signal', name=_name, **payload)
        sig.connect(receiver, weak=False)


def exc_site(exc):
    tb = traceback.extract_tb(exc.__traceback__)
    site = None
    for fr in tb:
        fn = fr.filename.replace('\\', '/')
        if '/django_evolution/' in fn and '/tests/' not in fn:
            site = '%s:%s' % (fn.split('/django_evolution/', 1)[1], fr.name)
    return site or 'outside'


def outcome_of(exc):
    if exc is None:
        return {'ok': True}
    o = {'ok': False, 'exc': type(exc).__name__, 'msg': str(exc)[:400],
         'site': exc_site(exc),
         'mro': [c.__name__ for c in type(exc).__mro__][:6],
         'frames': ['%s:%s:%d' % (os.path.basename(f.filename), f.name,
                                  f.lineno)
                    for f in traceback.extract_tb(exc.__traceback__)
                    if '/django_evolution/' in f.filename][-8:]}
    last = getattr(exc, 'last_sql_statement', None)
    if last:
        o['last_sql'] = str(last[0])[:300]
        o['last_params'] = _jsonable(last[1]) if last[1] else None
    for a in ('app_label', 'detailed_error'):
        if getattr(exc, a, None):
            o[a] = str(getattr(exc, a))[:300]
    return o


def sig_facts(alias='default'):
    """stored signature vs signature of the current models."""
    from django_evolution.diff import Diff
    from django_evolution.models import Evolution, Version
    from django_evolution.signature import ProjectSignature
    facts = {}
    try:
        v = Version.objects.current_version(using=alias)
    except Exception as e:
        return {'version_error': type(e).__name__}
    cur = ProjectSignature.from_database(alias)
    stored = v.signature
    d1, d2 = Diff(stored, cur), Diff(cur, stored)
    facts['stored_eq_current'] = bool(stored == cur)
    facts['stored_diff_empty'] = bool(d1.is_empty(ignore_apps=True))
    facts['current_diff_empty'] = bool(d2.is_empty(ignore_apps=True))
    if not facts['stored_diff_empty']:
        facts['stored_diff'] = str(d1)[:400]
    facts['version_id'] = v.pk
    facts['n_versions'] = Version.objects.using(alias).count()
    facts['evolutions'] = sorted(
        [e.app_label, e.label, e.version_id]
        for e in Evolution.objects.using(alias).all())
    try:
        from django.db import connections
        cur = connections[alias].cursor()
        cur.execute('SELECT app, name FROM django_migrations ORDER BY id')
        facts['django_migrations'] = [list(r) for r in cur.fetchall()]
        cur.close()
    except Exception:
        facts['django_migrations'] = None
    ser = stored.serialize()
    facts['stored_apps'] = {
        app: {'models': sorted(d.get('models', {})),
              'upgrade_method': d.get('upgrade_method'),
              'applied_migrations': d.get('applied_migrations')}
        for app, d in ser.get('apps', {}).items()}
    return facts


def evolver_facts(evolver):
    """Preparation happens here (as it would inside evolve()); an exception
    is the outcome of the run and propagates."""
    f = {}
    f['evolution_required'] = bool(evolver.get_evolution_required())
    f['can_simulate'] = bool(evolver.can_simulate())
    d = evolver.diff_evolutions()
    f['diff_evolutions_empty'] = bool(d.is_empty(ignore_apps=True))
    if not f['diff_evolutions_empty']:
        f['diff_evolutions'] = str(d)[:300]
    return f


def run_action(action, args):
    from django.core.management import call_command
    out, err = io.StringIO(), io.StringIO()
    res = {'facts': {}}
    exc = None
    alias = args.get('database') or 'default'
    try:
        if action == 'evolve_api':
            from django_evolution.evolve import Evolver
            from django_evolution.compat.apps import get_app
            ev = Evolver(database_name=alias, hinted=bool(args.get('hinted')))
            emit('mark', what='evolver_created')
            if args.get('apps'):
                for a in args['apps']:
                    ev.queue_evolve_app(get_app(a))
            else:
                ev.queue_evolve_all_apps()
            if args.get('purge'):
                ev.queue_purge_old_apps()
            for label in args.get('purge_apps') or []:
                ev.queue_purge_app(label)
            if not args.get('no_facts_before'):
                res['facts'].update(evolver_facts(ev))
            if res['facts'].get('evolution_required') or args.get('force'):
                FAULT['armed'] = True
                emit('mark', what='evolve_start')
                try:
                    ev.evolve()
                finally:
                    FAULT['armed'] = False
                    emit('mark', what='evolve_end')
        elif action == 'evolve_cmd':
            kw = {'execute': True, 'interactive': False,
                  'verbosity': args.get('verbosity', 1),
                  'stdout': out, 'stderr': err}
            if args.get('purge'):
                kw['purge'] = True
            if args.get('database'):
                kw['database'] = args['database']
            FAULT['armed'] = True
            emit('mark', what='evolve_start')
            try:
                call_command('evolve', **kw)
            finally:
                FAULT['armed'] = False
                emit('mark', what='evolve_end')
        elif action == 'migrate_cmd':
            kw = {'interactive': False, 'verbosity': 1, 'stdout': out,
                  'stderr': err}
            if args.get('database'):
                kw['database'] = args['database']
            emit('mark', what='evolve_start')
            try:
                call_command('migrate', **kw)
            finally:
                emit('mark', what='evolve_end')
        elif action == 'sql':
            call_command('evolve', compile_sql=True, interactive=False,
                         stdout=out, stderr=err,
                         **({'database': args['database']}
                            if args.get('database') else {}))
        elif action == 'hint':
            call_command('evolve', hint=True, interactive=False, stdout=out,
                         stderr=err)
        elif action == 'mark':
            call_command('mark-evolution-applied',
                         *args.get('labels', []), interactive=False,
                         app_label=args['app'], stdout=out, stderr=err,
                         **({'apply_all': True} if args.get('all') else {}))
        elif action == 'wipe':
            call_command('wipe-evolution', *args['labels'],
                         app_label=args['app'], interactive=False,
                         stdout=out, stderr=err)
        elif action == 'makemigrations':
            call_command('makemigrations', args['app'], name=args['name'],
                         interactive=False, verbosity=0, stdout=out,
                         stderr=err)
        elif action == 'status':
            from django_evolution.evolve import Evolver
            ev = Evolver(database_name=alias)
            ev.queue_evolve_all_apps()
            res['facts'].update(evolver_facts(ev))
        else:
            raise ValueError('unknown action %r' % action)
    except BaseException as e:       # CommandError, SystemExit, anything
        exc = e
    res['outcome'] = outcome_of(exc)
    res['stdout'] = out.getvalue()[-20000:]
    res['stderr'] = err.getvalue()[-4000:]
    return res


def main():
    import django
    django.setup()
    import logging
    logging.disable(logging.CRITICAL)
    import warnings
    warnings.simplefilter('ignore')
    from django.conf import settings
    for alias in settings.DATABASES:
        attach_connection(alias)
    attach_signals()
    wrap_run_sql()
    wrap_graph()
    action = os.environ['PL_ACTION']
    args = json.loads(os.environ.get('PL_ARGS') or '{}')
    if action == 'fault_loop':
        from vcheck import driver_fault
        res = driver_fault.run(args, sys.modules[__name__])
    else:
        if args.get('fault_at'):
            FAULT['at'] = int(args['fault_at'])
        if args.get('fault_re'):
            import re as _re
            _rx = _re.compile(args['fault_re'])
            FAULT['match'] = lambda sql: bool(_rx.search(sql))
        if args.get('rehearse_on'):
            # the same action is first carried out, in this very process,
            # on another database holding a copy of the observed one: state
            # kept in the process between two runs must not change the
            # second one.  Only the observed run is recorded.
            run_action(action, dict(args, database=args['rehearse_on'],
                                    rehearse_on=None))
            del EVENTS[:]
            emit('mark', what='rehearsal_done')
        res = run_action(action, args)
        if not args.get('no_facts'):
            try:
                swap = bool(os.environ.get('PL_SWAP'))
                for alias in settings.DATABASES:
                    # (decoy mode: the observed database is `other`)
                    key = 'after' if alias == (
                        'other' if swap else 'default') else 'after_' + alias
                    res[key] = sig_facts(alias)
            except Exception as e:
                res['after_error'] = '%s: %s' % (type(e).__name__,
                                                 str(e)[:300])
        res['events'] = EVENTS
        res['fault_fired'] = FAULT['fired']
    import django_evolution
    res['de_file'] = django_evolution.__file__
    with open(os.environ['PL_OUT'], 'w') as f:
        json.dump(res, f, default=str)


if __name__ == '__main__':
    sys.path.insert(0, os.path.dirname(os.path.dirname(
        os.path.abspath(__file__))))
    main()
