"""Generated evolution cases shared by C01/C02/C03/C11/C18: a start spec, optional
rows, and a sequence of edits each of which the repo's own run_simulation
accepts on the current signature ("simulation-valid, one mutation at a time").
"""
import copy
import random

from . import edits as E
from . import siglab
from . import specs as S


def rng_for(*parts):
    return random.Random(':'.join(str(p) for p in parts))


def gen_rows(rng, spec, max_rows=6):
    """{table: [row,...]}: 0..max_rows rows per model table, raw values.

    Values are distinct per column (row index is part of every value) so that
    UNIQUE additions later in a case cannot fail on data; nullable columns get
    NULLs; strings carry quotes, percent signs, backslashes, unicode; numbers
    include boundaries; FK / O2O / M2M links point at existing rows."""
    rows = {}
    counts = {}
    for app, mods in spec.items():
        for mname in mods:
            counts[(app, mname)] = rng.randint(0, max_rows)
    strs = ['', "it's", 'a"b', '100%', '%s', 'back\\slash', '\u00fcn\u00ef\u20ac',
            "'; DROP", 'NULL', ' sp ', '%(x)s', 'Z']
    ints = [0, -1, 2147483647, -2147483648, 7, 100]
    bigs = [0, -1, 9223372036854775807, -9223372036854775808, 12, 5]
    poss = [0, 1, 2147483647, 5, 77, 1000]
    for app, mods in spec.items():
        for mname, ms in mods.items():
            n = counts[(app, mname)]
            out = []
            for i in range(n):
                r = {'id': i + 1}
                for fname, fdef in ms['fields']:
                    kind = fdef['kind']
                    if kind == 'ManyToMany':
                        continue
                    col = S.column_of(fname, fdef)
                    if fdef.get('null') and rng.random() < 0.35:
                        r[col] = None
                        continue
                    if kind in ('ForeignKey', 'OneToOne'):
                        ta, tm = fdef['to'].split('.')
                        tn = counts[(ta, tm)] if (ta, tm) != (app, mname) \
                            else i + 1
                        if kind == 'OneToOne' or fdef.get('unique'):
                            v = i + 1 if i < tn else None
                        else:
                            v = rng.randint(1, tn) if tn else None
                        if v is None and not fdef.get('null'):
                            r = None
                            break
                        r[col] = v
                    elif kind in E.TEXT_KINDS:
                        v = '%d%s' % (i, rng.choice(strs))
                        if kind == 'Char':
                            v = v[:fdef.get('max_length') or 10]
                        r[col] = v
                    elif kind == 'Boolean':
                        r[col] = rng.choice([0, 1])
                    elif kind == 'PositiveInteger':
                        r[col] = poss[i % 6]
                    elif kind == 'Integer':
                        r[col] = ints[i % 6]
                    elif kind == 'BigInteger':
                        r[col] = bigs[i % 6]
                    elif kind == 'Decimal':
                        r[col] = ['0', '1.5', '-2.25', '10', '3.125',
                                  '99'][i % 6]
                    elif kind == 'DateTime':
                        r[col] = '2020-01-%02d 00:00:00' % (i + 1)
                if r is None:
                    break
                out.append(r)
            counts[(app, mname)] = len(out)
            rows[S.model_table(spec, app, mname)] = out
    for app, mods in spec.items():
        for mname, ms in mods.items():
            for fname, fdef in ms['fields']:
                if fdef['kind'] != 'ManyToMany':
                    continue
                ta, tm = fdef['to'].split('.')
                n1, n2 = counts[(app, mname)], counts[(ta, tm)]
                t = S.m2m_table(spec, app, mname, fname, fdef)
                c1, c2 = S.m2m_columns(app, mname, ta, tm)
                links, seen = [], set()
                for _k in range(rng.randint(0, 4)):
                    if not n1 or not n2:
                        break
                    pair = (rng.randint(1, n1), rng.randint(1, n2))
                    if pair in seen:
                        continue
                    seen.add(pair)
                    links.append({'id': len(links) + 1, c1: pair[0],
                                  c2: pair[1]})
                rows[t] = links
    return rows


def gen_walk(rng, gen, spec0, length, psig0, ops=None, max_tries=None,
             barrier_p=0.0):
    """Random walk of simulation-valid edits from spec0.

    Each candidate is kept only if the repo's own run_simulation accepts its
    mutation on a clone of the current signature.  Returns (edits, specs,
    rejected) where specs[i] is the spec before edits[i] and specs[-1] the
    target.
    """
    edits, specs, rejected = [], [spec0], []
    psig = psig0.clone()
    tries = 0
    max_tries = max_tries or length * 12
    while len(edits) < length and tries < max_tries:
        tries += 1
        cur = specs[-1]
        if barrier_p and rng.random() < barrier_p and any(cur.values()):
            app = rng.choice([a for a in cur if cur[a]])
            e = {'op': 'sql', 'app': app, 'tag': 'barrier_%s' % gen.uniq(),
                 'sql': ['SELECT 1;']}
        else:
            e = gen.candidate_edit(cur, ops=ops)
        if e is None:
            continue
        m = E.to_mutation(cur, e)
        trial = psig.clone()
        err = siglab.simulate_one(trial, e['app'], m)
        if err:
            rejected.append({'edit': e, 'err': err})
            continue
        try:
            nxt = E.apply_edit(cur, e)
            # the target spec must itself be a loadable model set
            _validate_spec(nxt)
        except Exception:
            continue
        psig = trial
        edits.append(e)
        specs.append(nxt)
    return edits, specs, rejected


def _validate_spec(spec):
    # distinct table names
    names = []
    for app, mods in spec.items():
        for m in mods:
            names.extend(S.owned_tables(spec, app, m))
    if len(names) != len(set(names)):
        raise ValueError('table name clash')
    for app, mods in spec.items():
        for m, ms in mods.items():
            fnames = [f[0] for f in ms['fields']]
            if len(fnames) != len(set(fnames)):
                raise ValueError('dup field')
            cols = [S.column_of(n, f) for n, f in ms['fields']
                    if f['kind'] != 'ManyToMany'] + ['id']
            if len(cols) != len(set(cols)):
                raise ValueError('dup column')
            for n, f in ms['fields']:
                if f.get('to'):
                    ta, tm = f['to'].split('.')
                    if tm not in spec.get(ta, {}):
                        raise ValueError('dangling')


def mutations_for(specs, edits):
    return [E.to_mutation(specs[i], e) for i, e in enumerate(edits)]


def op_kinds(edits):
    out = []
    for e in edits:
        k = e['op']
        if k == 'change_field':
            k += ':' + ('type' if e.get('new_kind') else
                        '+'.join(sorted(e['attrs'])))
        elif k == 'change_meta':
            k += ':' + e['prop']
        elif k == 'add_field':
            k += ':' + e['fdef']['kind']
        out.append(k)
    return out
