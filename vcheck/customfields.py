"""Custom field classes used by generated models (importable both by the
in-process lab and by the generated on-disk projects, which have /verif on
their path)."""
from django.db import models


class SubM2M(models.ManyToManyField):
    """A plain subclass of ManyToManyField (as sortedm2m-style packages
    ship): its automatically created table is owned by the model exactly like
    that of a ManyToManyField."""


class TagField(models.CharField):
    """Custom (non django.db.models) field classes: a hinted evolution has to
    import them by name."""


class CodeField(models.CharField):
    pass


class NoteField(models.CharField):
    pass
