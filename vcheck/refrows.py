"""Reference model of row data under an edit sequence (C02): which rows and
values must be in which table/column after the evolution."""
import copy

from . import specs as S


def initial_value(ini):
    """Expected stored value of a declared initial."""
    if isinstance(ini, dict) and 'callable' in ini:
        text = ini['callable'].strip()
        if text.startswith("'") and text.endswith("'"):
            return text[1:-1].replace("''", "'")
        try:
            return int(text)
        except ValueError:
            return text
    if ini is True:
        return 1
    if ini is False:
        return 0
    return ini


def apply_edit_rows(rows, before, after, e, notes):
    """rows: {table: [rowdict]} -> new rows after edit e.
    notes['type_changed'] collects (table, column) whose type changed."""
    r = copy.deepcopy(rows)
    op, app = e['op'], e['app']
    flags = notes.setdefault('colflags', {})

    def move_col(t, oc, nc):
        if (t, oc) in flags:
            flags[(t, nc)] = flags.pop((t, oc))

    def move_table(ot, nt):
        for (t, c) in list(flags):
            if t == ot:
                flags[(nt, c)] = flags.pop((t, c))

    if op == 'add_field':
        fdef = e['fdef']
        if fdef['kind'] == 'ManyToMany':
            r[S.m2m_table(after, app, e['model'], e['name'], fdef)] = []
        else:
            t = S.model_table(before, app, e['model'])
            col = S.column_of(e['name'], fdef)
            v = initial_value(e.get('initial'))
            for row in r.get(t, []):
                row[col] = v
    elif op == 'delete_field':
        fdef = S.get_field(before, app, e['model'], e['name'])
        if fdef['kind'] == 'ManyToMany':
            r.pop(S.m2m_table(before, app, e['model'], e['name'], fdef), None)
        else:
            t = S.model_table(before, app, e['model'])
            col = S.column_of(e['name'], fdef)
            for row in r.get(t, []):
                row.pop(col, None)
    elif op == 'rename_field':
        of = S.get_field(before, app, e['model'], e['old'])
        nf = S.get_field(after, app, e['model'], e['new'])
        if of['kind'] == 'ManyToMany':
            ot = S.m2m_table(before, app, e['model'], e['old'], of)
            nt = S.m2m_table(after, app, e['model'], e['new'], nf)
            if ot != nt:
                r[nt] = r.pop(ot, [])
        else:
            t = S.model_table(before, app, e['model'])
            oc, nc = S.column_of(e['old'], of), S.column_of(e['new'], nf)
            if oc != nc:
                move_col(t, oc, nc)
                for row in r.get(t, []):
                    row[nc] = row.pop(oc, None)
    elif op == 'change_field':
        of = S.get_field(before, app, e['model'], e['name'])
        nf = S.get_field(after, app, e['model'], e['name'])
        t = S.model_table(before, app, e['model'])
        oc, nc = S.column_of(e['name'], of), S.column_of(e['name'], nf)
        if oc != nc:
            move_col(t, oc, nc)
            for row in r.get(t, []):
                row[nc] = row.pop(oc, None)
        if e['attrs'].get('null') is False and of.get('null'):
            if isinstance(e.get('initial'), dict):
                flags.setdefault((t, nc), set()).add(
                    'callable_initial_null_change')
            v = initial_value(e.get('initial'))
            for row in r.get(t, []):
                if row.get(nc) is None:
                    row[nc] = v
        if e.get('new_kind'):
            notes.setdefault('type_changed', set()).add((t, nc))
    elif op == 'rename_model':
        ot = S.model_table(before, app, e['old'])
        nt = S.model_table(after, app, e['new'])
        if ot != nt:
            move_table(ot, nt)
            r[nt] = r.pop(ot, [])
        # automatically created M2M tables owned by / pointing at the model
        for fn, fd in before[app][e['old']]['fields']:
            if fd['kind'] != 'ManyToMany':
                continue
            om = S.m2m_table(before, app, e['old'], fn, fd)
            nfd = S.get_field(after, app, e['new'], fn)
            nm = S.m2m_table(after, app, e['new'], fn, nfd)
            ta, tm = fd['to'].split('.')
            nta, ntm = nfd['to'].split('.')
            oc = S.m2m_columns(app, e['old'], ta, tm)
            nc = S.m2m_columns(app, e['new'], nta, ntm)
            lst = r.pop(om, [])
            for row in lst:
                for a, b in zip(oc, nc):
                    if a != b and a in row:
                        row[b] = row.pop(a)
            r[nm] = lst
        old_ref = '%s.%s' % (app, e['old'])
        for a2, mods in before.items():
            for m2, ms in mods.items():
                if (a2, m2) == (app, e['old']):
                    continue
                for fn, fd in ms['fields']:
                    if fd['kind'] == 'ManyToMany' and fd['to'] == old_ref:
                        t = S.m2m_table(before, a2, m2, fn, fd)
                        oc = S.m2m_columns(a2, m2, app, e['old'])
                        nc = S.m2m_columns(a2, m2, app, e['new'])
                        for row in r.get(t, []):
                            for a, b in zip(oc, nc):
                                if a != b and a in row:
                                    row[b] = row.pop(a)
    elif op == 'delete_model':
        for t in S.owned_tables(before, app, e['model']):
            r.pop(t, None)
    elif op == 'delete_app':
        for m in before[app]:
            for t in S.owned_tables(before, app, m):
                r.pop(t, None)
    return r


def values_equal(exp, got):
    if exp is None or got is None:
        return exp is got
    if isinstance(exp, bool):
        exp = int(exp)
    if exp == got:
        return True
    try:
        return float(exp) == float(got) and not (
            isinstance(exp, str) and isinstance(got, str))
    except (TypeError, ValueError):
        return str(exp) == str(got)


def compare_rows(expected, snap, notes):
    """Discrepancy items between expected rows and the database snapshot."""
    items = []
    stats = {'rows_compared': 0, 'values_compared': 0}
    tc = notes.get('type_changed', set())
    for t, erows in expected.items():
        if t not in snap:
            if erows:
                items.append({'type': 'ROWS_TABLE_MISSING', 'table': t,
                              'rows': len(erows)})
            continue
        got = {r.get('id'): r for r in snap[t].get('rows', [])}
        exp = {r.get('id'): r for r in erows}
        if set(got) != set(exp):
            items.append({'type': 'ROW_COUNT', 'table': t,
                          'expected': len(exp), 'got': len(got)})
        for pk, er in exp.items():
            gr = got.get(pk)
            if gr is None:
                continue
            stats['rows_compared'] += 1
            for col, ev in er.items():
                if (t, col) in tc:
                    continue
                if col not in gr:
                    items.append({'type': 'ROW_COLUMN_MISSING', 'table': t,
                                  'col': col})
                    break
                stats['values_compared'] += 1
                if not values_equal(ev, gr[col]):
                    items.append({'type': 'ROW_VALUE', 'table': t,
                                  'col': col, 'pk': pk,
                                  'colflags': sorted(notes.get(
                                      'colflags', {}).get((t, col), ())),
                                  'expected': repr(ev)[:60],
                                  'got': repr(gr[col])[:60]})
    return items, stats
