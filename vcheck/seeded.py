"""Developer tool (not a registered check): run checks against the stored
property-breaking changes in /verif/seeded/<id>/patch.diff.

    python -m vcheck.seeded [-t quick|thorough] [-c C03,C01] [ids ...]
    python -m vcheck.seeded --import /tmp/seeded/C03_m1 "<verify log line>"

For every selected change: /repo must be clean; the patch is applied to /repo's
working tree, the checks are run, the patch is reverted (git checkout -- .)
whatever happens, and meta.json['detected_by'] is updated with what each check
reported.  Nothing is ever committed to /repo.
"""
import json
import os
import re
import shutil
import subprocess
import sys

ROOT = os.path.dirname(os.path.dirname(os.path.abspath(__file__)))
SEEDED = os.path.join(ROOT, 'seeded')


def sh(*a, **kw):
    return subprocess.run(a, stdout=subprocess.PIPE, stderr=subprocess.STDOUT,
                          text=True, **kw)


def repo_clean():
    return sh('git', '-C', '/repo', 'status', '--porcelain',
              '--untracked-files=no').stdout.strip() == ''


def run_one(mid, checks, tier, wt=None):
    """wt: a scratch worktree of /repo (outside /repo and /verif) to apply the
    change to instead of /repo itself, so that it can run next to a sweep."""
    d = os.path.join(SEEDED, mid)
    meta_p = os.path.join(d, 'meta.json')
    meta = json.load(open(meta_p))
    tree = wt or '/repo'
    if not wt and not repo_clean():
        print('repo dirty - refusing')
        sys.exit(9)
    if wt:
        sh('git', '-C', wt, 'checkout', '--', '.')
        sh('git', '-C', wt, 'checkout', '-q', '--detach', sh(
            'git', '-C', '/repo', 'rev-parse', 'HEAD').stdout.strip())
    r = sh('git', '-C', tree, 'apply', os.path.join(d, 'patch.diff'))
    if r.returncode:
        print(mid, 'PATCH FAILED', r.stdout[:200])
        return
    res = {}
    try:
        for c in checks:
            env = dict(os.environ)
            env.pop('VERIF_SEED', None)
            if wt:
                env['VERIF_REPO'] = wt
                env['VERIF_OUT'] = wt + '.out'
            p = sh(os.path.join(ROOT, 'check'), c, tier, cwd=ROOT, env=env)
            vio = [l for l in p.stdout.splitlines()
                   if l.startswith('VIOLATION')]
            types = {}
            for l in p.stdout.splitlines():
                if l.startswith('    {'):
                    m = re.search(r'"type": "(\w+)"', l)
                    if m:
                        types[m.group(1)] = types.get(m.group(1), 0) + 1
            m = re.search(r'(\d+) violating cases', p.stdout)
            ncases = int(m.group(1)) if m else 0
            res[c] = {'tier': tier, 'rc': p.returncode,
                      'violating_cases': ncases, 'item_types': types,
                      'caught': p.returncode == 1 and bool(vio)}
            print('%-8s %-4s %-8s rc=%d violations=%d %s' % (
                mid, c, tier, p.returncode, ncases, types))
    finally:
        sh('git', '-C', tree, 'checkout', '--', '.')
        shutil.rmtree(os.path.join(ROOT, 'replays'), ignore_errors=True)
        if wt:
            shutil.rmtree(wt + '.out', ignore_errors=True)
    det = meta.get('detected_by') or {}
    for c, v in res.items():
        det['%s:%s' % (c, tier)] = v
    meta['detected_by'] = det
    json.dump(meta, open(meta_p, 'w'), indent=1)


def do_import(src, logline):
    mid = os.path.basename(src.rstrip('/'))
    d = os.path.join(SEEDED, mid)
    os.makedirs(d, exist_ok=True)
    for f in os.listdir(src):
        p = os.path.join(src, f)
        if os.path.isfile(p) and os.path.getsize(p) < 200000:
            shutil.copy(p, os.path.join(d, f))
    notes = ''
    for f in ('notes.md', 'NOTES.md', 'README.md'):
        if os.path.exists(os.path.join(src, f)):
            notes = open(os.path.join(src, f)).read()
            break
    m = re.search(r'demo_clean_rc=(\d+) demo_mut_rc=(\d+) tests: (.*)',
                  logline)
    meta = {
        'id': mid, 'property': mid.split('_')[0],
        'source': 'independent sub-agent given only the property text and '
                  'a scratch worktree',
        'needs_to_manifest': ' '.join(notes.split())[:600],
        'verified': {
            'demo_rc_clean': int(m.group(1)) if m else None,
            'demo_rc_with_change': int(m.group(2)) if m else None,
            'test_suite_with_change': m.group(3) if m else None,
            'commands': ['git apply patch.diff',
                         'PYTHONPATH=<worktree> /venv/bin/python demo.py',
                         'PYTHONPATH=<worktree> /venv/bin/python -m pytest '
                         '-q -p no:cacheprovider']},
        'detected_by': None}
    json.dump(meta, open(os.path.join(d, 'meta.json'), 'w'), indent=1)
    print('imported', mid)


def main(argv):
    if argv and argv[0] == '--import':
        do_import(argv[1], argv[2] if len(argv) > 2 else '')
        return
    tier, checks, ids, wt = 'quick', None, [], None
    i = 0
    while i < len(argv):
        if argv[i] == '-t':
            tier = argv[i + 1]
            i += 2
        elif argv[i] == '--wt':
            wt = argv[i + 1]
            i += 2
        elif argv[i] == '-c':
            checks = argv[i + 1].split(',')
            i += 2
        else:
            ids.append(argv[i])
            i += 1
    if not ids:
        ids = sorted(os.listdir(SEEDED))
    for mid in ids:
        if not os.path.exists(os.path.join(SEEDED, mid, 'patch.diff')):
            continue
        run_one(mid, checks or [mid.split('_')[0]], tier, wt)


if __name__ == '__main__':
    main(sys.argv[1:])
