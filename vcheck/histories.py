"""Generated linear histories V0..Vn of one or two apps for the projlab
checks: per version the model spec, per step the edits (each accepted by the
real run_simulation), rendered as evolution files."""
from . import edits as E
from . import seqcase
from . import specs as S

# a subset of edits whose lowering is not affected by the schema-lowering
# and optimiser findings recorded for C01/C03 (no Meta options, no
# PositiveIntegerField, no name reuse, no M2M on renamed models ...), so that
# the pipeline-level checks judge the pipeline.
CLEAN_KINDS = ('Char', 'Text', 'Integer', 'BigInteger', 'Boolean', 'Decimal',
               'DateTime', 'ForeignKey')
CLEAN_OPS = ['add_field'] * 5 + ['delete_field'] * 3 + ['change_field'] * 4 \
    + ['delete_model']


class History(object):
    def __init__(self):
        self.specs = []          # spec at V0..Vn
        self.steps = []          # edits leading to V1..Vn
        self.texts = []          # per step: {app: [mutation text]}

    @property
    def n(self):
        return len(self.specs) - 1

    def app_models(self, app, v):
        return self.specs[v].get(app, {})


def clean_candidate(gen, spec, rng, used, added=(), nullchanged=(),
                    step_start=None):
    """A candidate edit of the clean subset (or None)."""
    e = gen.candidate_edit(spec, ops=[rng.choice(CLEAN_OPS)])
    if e is None:
        return None
    if e['op'] == 'change_field':
        keep = {k: v for k, v in e['attrs'].items()
                if k in ('null', 'max_length', 'max_digits',
                         'decimal_places')}
        if e.get('new_kind') or not keep:
            return None
        fd = S.get_field(spec, e['app'], e['model'], e['name'])
        if fd['kind'] == 'ForeignKey':
            return None
        e['attrs'] = keep
        key = (e['app'], e['model'], e['name'])
        if key in added:
            # ChangeField of a field added earlier in the history is rolled
            # into the AddField when evolutions are batched (KF-C03-M1/M5)
            return None
        if 'null' in keep:
            if key in nullchanged:
                # two null changes of one field collapse (KF-C03-M5)
                return None
        if 'null' not in keep:
            e.pop('initial', None)
    if e['op'] == 'add_field':
        fd = e['fdef']
        fd.pop('db_column', None)
        fd.pop('unique', None)
        if fd['kind'] == 'ForeignKey':
            fd.pop('db_index', None)
        key = (e['app'], e['model'], e['name'])
        if key in used:
            return None
    if e['op'] == 'delete_model' and step_start is not None:
        # a relation to the model dropped in the same evolution is regrouped
        # behind the DeleteModel (KF-C03-M2-DELETEMODEL-IN-BATCH)
        for sp in step_start:
            if e['model'] in sp.get(e['app'], {}) and [
                    r for r in E.referrers(sp, e['app'], e['model'])
                    if (r[0], r[1]) != (e['app'], e['model'])]:
                return None
    if e['op'] == 'rename_field':
        fd = S.get_field(spec, e['app'], e['model'], e['old'])
        if fd['kind'] in S.REL_KINDS or fd.get('db_column') or \
                fd.get('db_index') or fd.get('unique'):
            return None
        e.pop('db_column', None)
        if (e['app'], e['model'], e['new']) in used:
            return None
    return e


def gen_history(rng, n_versions, apps=('app1',), rows=True):
    """-> History with n_versions+1 specs.  Needs siglab (Django) set up."""
    gen = E.SpecGen(rng, apps=apps, kinds=CLEAN_KINDS, allow_meta=False,
                    rows=rows, max_models=3)
    gen.no_callables = True
    h = History()
    spec = gen.gen_spec()
    # strip attributes outside the clean subset from the start spec
    for app, mods in spec.items():
        for m, ms in mods.items():
            ms['meta'] = {}
            for _n, fd in ms['fields']:
                fd.pop('db_column', None)
                if fd['kind'] == 'ForeignKey':
                    fd.pop('db_index', None)
    used = set((a, m, f) for a, mods in spec.items()
               for m, ms in mods.items() for f, _d in ms['fields'])
    added, nullchanged = set(), set()
    ever_ref = set(tuple(fd['to'].split('.')) for mods in spec.values()
                   for ms in mods.values() for _n, fd in ms['fields']
                   if fd.get('to'))
    h.specs.append(spec)
    classes = S.build_models(spec)
    psig = S.project_sig(classes, apps_order=list(spec))
    from . import siglab
    for _v in range(n_versions):
        cur = h.specs[-1]
        edits = []
        want = rng.choice([1, 1, 2, 3, 4])
        tries = 0
        while len(edits) < want and tries < 40:
            tries += 1
            e = clean_candidate(gen, cur, rng, used, added, nullchanged,
                                step_start=list(h.specs))
            if e is None:
                continue
            m = E.to_mutation(cur, e)
            trial = psig.clone()
            if siglab.simulate_one(trial, e['app'], m):
                continue
            try:
                nxt = E.apply_edit(cur, e)
                seqcase._validate_spec(nxt)
            except Exception:
                continue
            if e['op'] == 'delete_model' and (e['app'], e['model']) in ever_ref:
                # a relation to the model existed at some point of the
                # history (possibly only inside one step): batching the
                # evolutions regroups it behind the DeleteModel
                # (KF-C03-M2-DELETEMODEL-IN-BATCH)
                continue
            if e['op'] == 'add_field' and e['fdef'].get('to'):
                ever_ref.add(tuple(e['fdef']['to'].split('.')))
            psig = trial
            cur = nxt
            edits.append((e, str(m)))
            for k in ('name', 'new'):
                if e.get(k) and e.get('model'):
                    used.add((e['app'], e['model'], e[k]))
            if e['op'] == 'add_field':
                added.add((e['app'], e['model'], e['name']))
            if e['op'] == 'change_field' and 'null' in e['attrs']:
                nullchanged.add((e['app'], e['model'], e['name']))
        h.specs.append(cur)
        h.steps.append([e for e, _t in edits])
        texts = {}
        for e, t in edits:
            texts.setdefault(e['app'], []).append(t)
        h.texts.append(texts)
    return h


def write_project(proj, h, apps, deps=None):
    """Write every app of history h into proj (labels e1.. per app).
    deps: {app: {label: {'AFTER_EVOLUTIONS': [...], ...}}}."""
    labels_at = {}
    for app in apps:
        versions = [h.app_models(app, v) for v in range(len(h.specs))]
        evolutions, nv = [], [0]
        for i, texts in enumerate(h.texts):
            if texts.get(app):
                label = 'e%d' % (len(evolutions) + 1)
                evolutions.append((label, texts[app],
                                   ((deps or {}).get(app) or {}).get(
                                       label) or {}))
            nv.append(len(evolutions))
        proj.write_app(app, versions, evolutions, nv=nv)
        # an evolution given as {'sqlfile': text} is shipped as
        # evolutions/<label>.sql instead of a Python module
        import os
        for label, texts, _d in evolutions:
            if isinstance(texts, dict):
                os.unlink(proj.path(app, 'evolutions', label + '.py'))
                with open(proj.path(app, 'evolutions', label + '.sql'),
                          'w') as f:
                    f.write(texts['sqlfile'])
        labels_at[app] = nv
    return labels_at


def expected_labels(labels_at, v):
    out = set()
    for app, nv in labels_at.items():
        for k in range(nv[v]):
            out.add((app, 'e%d' % (k + 1)))
    return out


def gen_upgrade(rng, two_apps=False, with_new_model=None, max_edits=4,
                with_rename=False):
    """One single-batch upgrade V0 -> V1 over the *full* mutation space (the
    C01 generator), optionally with a brand-new model at V1 (model creation +
    deferred SQL).  -> History with 2 specs."""
    from . import siglab
    apps = ('app1', 'app2') if two_apps else ('app1',)
    gen = E.SpecGen(rng, apps=apps, rows=True, max_models=2)
    gen.no_callables = True
    h = History()
    spec0 = gen.gen_spec()
    h.specs.append(spec0)
    classes = S.build_models(spec0)
    psig = S.project_sig(classes, apps_order=list(spec0))
    ops = ['add_field'] * 5 + ['delete_field'] * 3 + ['rename_field'] * 2 + \
        ['change_field'] * 6 + ['change_meta'] * 3
    if with_rename:
        ops = ops + ['rename_model'] * 4
    edits, specs, _rej = seqcase.gen_walk(
        rng, gen, spec0, rng.randint(1, max_edits), psig, ops=ops)
    spec1 = specs[-1]
    if with_new_model is None:
        with_new_model = rng.random() < 0.5
    if with_new_model:
        spec1 = S.clone(spec1)
        app = rng.choice(list(apps))
        targets = ['%s.%s' % (a, m) for a, mods in spec1.items()
                   for m in mods]
        fields = [['q1', {'kind': 'Integer', 'db_index': True}],
                  ['q2', {'kind': 'Char', 'max_length': 20, 'null': True}]]
        if targets:
            fields.append(['q3', {'kind': 'ForeignKey', 'null': True,
                                  'to': rng.choice(targets)}])
        if rng.random() < 0.5:
            fields.append(['q4', {'kind': 'ManyToMany',
                                  'to': '%s.NewModel' % app}])
        spec1[app]['NewModel'] = {
            'fields': fields,
            'meta': {'unique_together': [['q1', 'q2']]}
            if rng.random() < 0.5 else {}}
        if two_apps and rng.random() < 0.6:
            # the other app gets a new model too: two tasks create models
            # in the same batch
            other = [a for a in apps if a != app][0]
            spec1[other]['NewModel2'] = {
                'fields': [['r1', {'kind': 'Integer'}],
                           ['r2', {'kind': 'ForeignKey', 'null': True,
                                   'to': '%s.NewModel' % app}]],
                'meta': {}}
    h.specs.append(spec1)
    h.steps.append(edits)
    texts = {}
    for i, e in enumerate(edits):
        texts.setdefault(e['app'], []).append(
            str(E.to_mutation(specs[i], e)))
    h.texts.append(texts)
    return h
