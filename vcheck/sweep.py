"""Developer tool: run a check for seeds 0-7 on a tier and print one line per
seed with the number of unexplained buckets (0 everywhere = release-clean).
  python -m vcheck.sweep C01,C02 thorough
"""
import subprocess
import sys

ids = sys.argv[1].split(',')
tier = sys.argv[2] if len(sys.argv) > 2 else 'quick'
seeds = [int(x) for x in (sys.argv[3].split(',') if len(sys.argv) > 3
                          else '0,1,2,3,4,5,6,7'.split(','))]
for pid in ids:
    for s in seeds:
        p = subprocess.run(['./check', pid, tier], capture_output=True,
                           text=True, env=dict(__import__('os').environ,
                                               VERIF_SEED=str(s)))
        first = p.stdout.splitlines()[0] if p.stdout else ''
        bad = [l for l in p.stdout.splitlines()
               if l.startswith(('VIOLATION', 'INCONCLUSIVE'))]
        print(pid, tier, 'seed', s, 'rc', p.returncode, '|', first[:110],
              '|', bad[:3], flush=True)
