"""Paired generation: spec edits <-> django-evolution mutations (refmodel).

Every generated edit is applied to the JSON model spec (``apply_edit``) and
expressed as a real mutation object (``to_mutation``).  The reference model is
deliberately tiny: it only knows what each edit means *at model level*; the
expected database is then produced by Django's own schema editor from the
edited spec, never by a model of django-evolution.
"""
import copy
import zlib
import random

from . import specs as S

INT_KINDS = ('Integer', 'BigInteger', 'PositiveInteger')
TEXT_KINDS = ('Char', 'Text')


class Barrier(object):
    """Top-level (picklable-free) no-op update_func for SQLMutation."""
    def __call__(self, *a, **kw):
        return None


def _noop_update(simulation):
    """update_func of the barrier SQLMutations: the SQL changes nothing.
    (SQLMutation.simulate() only accepts functions with this exact
    signature - a (*args, **kwargs) function is reported as not
    simulatable, which silently removed every barrier from the pools.)"""
    return None


def initial_object(ini):
    """JSON initial spec -> python object handed to the mutation."""
    if isinstance(ini, dict) and 'callable' in ini:
        text = ini['callable']

        def _initial(_t=text):
            return _t
        _initial.__name__ = 'initial_callable'
        return _initial
    return ini


def q_value(qs):
    return S.q_from_spec(qs)


def meta_value_for_mutation(prop, value):
    """Spec-form Meta value -> the python value ChangeMeta expects."""
    if prop in ('unique_together', 'index_together'):
        return [tuple(t) for t in value]
    if prop == 'indexes':
        out = []
        for ix in value:
            if ix.get('lower'):
                from django.db.models.functions import Lower
                expr = (Lower(ix['lower']),)
                out.append({'name': ix['name'],
                            'expressions': list(expr)
                            if ix.get('as_list') else expr})
                continue
            d = {'fields': list(ix['fields']), 'name': ix['name']}
            if ix.get('condition'):
                d['condition'] = q_value(ix['condition'])
            out.append(d)
        return out
    if prop == 'constraints':
        from django.db import models
        out = []
        for c in value:
            if c['type'] == 'check':
                out.append({'type': models.CheckConstraint, 'name': c['name'],
                            'check': q_value(c['check'])})
            else:
                d = {'type': models.UniqueConstraint, 'name': c['name'],
                     'fields': tuple(c['fields'])}
                if c.get('condition'):
                    d['condition'] = q_value(c['condition'])
                out.append(d)
        return out
    raise ValueError(prop)


def field_attrs_for_mutation(fdef):
    """AddField keyword attrs for a field definition."""
    kw = {}
    kind = fdef['kind']
    for a in ('null', 'db_index', 'unique', 'db_column', 'max_length',
              'max_digits', 'decimal_places'):
        v = fdef.get(a)
        if v is None or v is False:
            continue
        if kind == 'ManyToMany' and a == 'null':
            continue
        kw[a] = v
    if kind in ('ForeignKey', 'OneToOne') and fdef.get('db_index') is False:
        kw['db_index'] = False
    if kind == 'OneToOne':
        # what the signature (and therefore a hinted AddField) records
        kw['unique'] = True
    if kind in S.REL_KINDS:
        kw['related_model'] = fdef['to']
    if kind == 'ManyToMany' and fdef.get('db_table'):
        kw['db_table'] = fdef['db_table']
    return kw


def to_mutation(spec, e):
    """Build the real mutation object for edit e (spec = state before e)."""
    from django_evolution import mutations as M
    op = e['op']
    if op == 'add_field':
        kw = field_attrs_for_mutation(e['fdef'])
        ini = e.get('initial')
        if ini is not None:
            kw['initial'] = initial_object(ini)
        if e.get('explicit_null'):
            kw['null'] = bool(e['fdef'].get('null', False))
        return M.AddField(e['model'], e['name'],
                          S.field_class(e['fdef']['kind']), **kw)
    if op == 'delete_field':
        return M.DeleteField(e['model'], e['name'])
    if op == 'rename_field':
        kw = {}
        if e.get('db_column'):
            kw['db_column'] = e['db_column']
        if e.get('db_table'):
            kw['db_table'] = e['db_table']
        return M.RenameField(e['model'], e['old'], e['new'], **kw)
    if op == 'change_field':
        kw = dict(e['attrs'])
        if e.get('new_kind'):
            # a type change is a hard reset of the field's attributes in
            # django-evolution (as in its own hinted ChangeField): restate
            # every attribute of the resulting field
            nf = S.get_field(apply_edit(spec, e), e['app'], e['model'],
                             e['name'])
            kw = field_attrs_for_mutation(nf)
            kw['field_type'] = S.field_class(e['new_kind'])
            if e.get('explicit_null'):
                kw['null'] = bool(nf.get('null', False))
        if e.get('initial') is not None:
            kw['initial'] = initial_object(e['initial'])
        if e.get('restate_type'):
            # the hand-written form that names the current field type again
            # next to the attribute it changes
            kw['field_type'] = S.field_class(
                S.get_field(spec, e['app'], e['model'], e['name'])['kind'])
        return M.ChangeField(e['model'], e['name'], **kw)
    if op == 'change_meta':
        return M.ChangeMeta(e['model'], e['prop'],
                            meta_value_for_mutation(e['prop'], e['value']))
    if op == 'rename_model':
        return M.RenameModel(e['old'], e['new'], db_table=e['db_table'])
    if op == 'delete_model':
        return M.DeleteModel(e['model'])
    if op == 'delete_app':
        return M.DeleteApplication()
    if op == 'sql':
        return M.SQLMutation(e['tag'], list(e['sql']), _noop_update)
    if op == 'rename_app':
        kw = {}
        if e.get('model_names') is not None:
            kw['model_names'] = list(e['model_names'])
        return M.RenameAppLabel(e['app'], e['new_app'],
                                legacy_app_label=e.get('legacy'), **kw)
    raise ValueError(op)


def apply_edit(spec, e):
    """Reference semantics of an edit on the model spec (returns a new spec)."""
    s = copy.deepcopy(spec)
    op = e['op']
    app = e['app']
    if op == 'add_field':
        s[app][e['model']]['fields'].append([e['name'],
                                             copy.deepcopy(e['fdef'])])
    elif op == 'delete_field':
        m = s[app][e['model']]
        m['fields'] = [f for f in m['fields'] if f[0] != e['name']]
    elif op == 'rename_field':
        for f in s[app][e['model']]['fields']:
            if f[0] == e['old']:
                f[0] = e['new']
                if f[1]['kind'] == 'ManyToMany':
                    if e.get('db_table'):
                        f[1]['db_table'] = e['db_table']
                    else:
                        f[1].pop('db_table', None)
                elif e.get('db_column'):
                    f[1]['db_column'] = e['db_column']
                else:
                    f[1].pop('db_column', None)
    elif op == 'change_field':
        fdef = S.get_field(s, app, e['model'], e['name'])
        if e.get('new_kind'):
            fdef['kind'] = e['new_kind']
            for a in ('max_length', 'max_digits', 'decimal_places'):
                if a not in e['attrs']:
                    fdef.pop(a, None)
        for a, v in e['attrs'].items():
            fdef[a] = v
    elif op == 'change_meta':
        meta = s[app][e['model']].setdefault('meta', {})
        meta[e['prop']] = copy.deepcopy(e['value'])
    elif op == 'rename_model':
        mods = s[app]
        new = {}
        for name, ms in mods.items():
            if name == e['old']:
                ms = copy.deepcopy(ms)
                meta = ms.setdefault('meta', {})
                if e['db_table'] == S.default_table(app, e['new']):
                    meta.pop('db_table', None)
                else:
                    meta['db_table'] = e['db_table']
                new[e['new']] = ms
            else:
                new[name] = ms
        s[app] = new
        old_ref = '%s.%s' % (app, e['old'])
        new_ref = '%s.%s' % (app, e['new'])
        for a2, mods2 in s.items():
            for _n, ms in mods2.items():
                for _fn, fdef in ms['fields']:
                    if fdef.get('to') == old_ref:
                        fdef['to'] = new_ref
    elif op == 'delete_model':
        del s[app][e['model']]
    elif op == 'delete_app':
        s[app] = {}
    elif op == 'sql':
        pass
    elif op == 'rename_app':
        new_app = e['new_app']
        moved = list(s[app]) if e.get('model_names') is None \
            else list(e['model_names'])
        dest = s.setdefault(new_app, {})
        for m in moved:
            ms = s[app].pop(m)
            # the tables stay where they are
            ms.setdefault('meta', {})['db_table'] = S.model_table(
                spec, app, m)
            for fn, fd in ms['fields']:
                if fd['kind'] == 'ManyToMany' and not fd.get('db_table'):
                    fd['db_table'] = S.m2m_table(spec, app, m, fn, fd)
            dest[m] = ms
        for a2, mods2 in s.items():
            for _n, ms in mods2.items():
                for _fn, fd in ms['fields']:
                    if fd.get('to'):
                        ta, tm = fd['to'].split('.')
                        if ta == app and tm in moved:
                            fd['to'] = '%s.%s' % (new_app, tm)
    else:
        raise ValueError(op)
    return s


# ---------------------------------------------------------------- predicates

def meta_field_refs(mspec):
    """Field names referenced by the model's Meta options."""
    refs = set()
    meta = mspec.get('meta') or {}
    for t in (meta.get('unique_together') or []) + \
            (meta.get('index_together') or []):
        refs.update(t)
    for ix in meta.get('indexes') or []:
        refs.update(f.lstrip('-') for f in ix['fields'])
        refs.update(_q_fields(ix.get('condition')))
    for c in meta.get('constraints') or []:
        refs.update(c.get('fields') or [])
        refs.update(_q_fields(c.get('check')))
        refs.update(_q_fields(c.get('condition')))
    return refs


def _q_fields(qs):
    if not qs:
        return set()
    if qs[0] in ('and', 'or'):
        return _q_fields(qs[1]) | _q_fields(qs[2])
    if qs[0] == 'not':
        return _q_fields(qs[1])
    return {qs[1]}


def referrers(spec, app, mname):
    """[(app2, model2, fname)] of relation fields pointing at app.mname."""
    ref = '%s.%s' % (app, mname)
    out = []
    for a2, mods in spec.items():
        for m2, ms in mods.items():
            for fn, fdef in ms['fields']:
                if fdef.get('to') == ref:
                    out.append((a2, m2, fn))
    return out


def all_table_names(spec):
    t = set()
    for app, mods in spec.items():
        for m in mods:
            t.update(S.owned_tables(spec, app, m))
    return t


# ----------------------------------------------------------------- generator

FIELD_NAMES = ('f1', 'f2', 'f3', 'f4', 'n', 'nn')
MODEL_NAMES = ('A', 'AA', 'A_b', 'B', 'C')
STR_INITIALS = ['', 'x', "it's", 'a"b', '100%', '%s', 'back\\slash',
                'ünï', "'; --"]
INT_INITIALS = [0, 1, 7, 42, 2147483647]


def gen_fdef(rng, spec, app, kinds=None, allow_rel=True, own=None):
    """Random field definition valid against spec."""
    pool = list(kinds or S.KINDS)
    if not allow_rel:
        pool = [k for k in pool if k not in S.REL_KINDS]
    kind = rng.choice(pool)
    fdef = {'kind': kind}
    if kind == 'Char':
        fdef['max_length'] = rng.choice([10, 20, 50, 255])
    if kind == 'Decimal':
        fdef['max_digits'] = rng.choice([5, 8, 12])
        fdef['decimal_places'] = rng.choice([0, 2, 3])
    if kind in S.REL_KINDS:
        targets = ['%s.%s' % (a, m) for a, mods in spec.items() for m in mods]
        if not targets:
            return gen_fdef(rng, spec, app, kinds, allow_rel=False)
        fdef['to'] = rng.choice(targets)
    if kind != 'ManyToMany':
        if rng.random() < 0.45:
            fdef['null'] = True
        if kind == 'OneToOne':
            pass
        elif kind not in ('Boolean', 'Text') and rng.random() < 0.2:
            fdef['unique'] = True
        elif rng.random() < 0.25:
            fdef['db_index'] = True
        if kind in ('ForeignKey',) and rng.random() < 0.15:
            fdef['db_index'] = False
        if rng.random() < 0.15:
            fdef['db_column'] = 'col_%d' % rng.randrange(1000)
    return fdef


def gen_initial(rng, fdef, allow_callable=True):
    kind = fdef['kind']
    if kind in TEXT_KINDS:
        v = rng.choice(STR_INITIALS)
        if kind == 'Char':
            v = v[:fdef.get('max_length') or 10]
        if allow_callable and rng.random() < 0.15:
            return {'callable': "'cb'"}
        return v
    if kind in INT_KINDS:
        if allow_callable and rng.random() < 0.15:
            return {'callable': '99'}
        v = rng.choice(INT_INITIALS)
        if kind != 'PositiveInteger' and rng.random() < 0.3:
            v = -v
        return v
    if kind == 'Boolean':
        return rng.choice([True, False])
    if kind == 'Decimal':
        return rng.choice([0, 1, 12])
    if kind == 'DateTime':
        return '2020-01-02 03:04:05'
    return None


def gen_q(rng, mspec, depth=0, safe=False):
    ints = [n for n, f in mspec['fields'] if f['kind'] in INT_KINDS]
    if not ints:
        return None
    if safe:
        # satisfied by every row the row generator can produce
        q = ['gte', rng.choice(ints), -9223372036854775808]
        if depth < 1 and rng.random() < 0.3:
            return [rng.choice(['and', 'or']), q,
                    gen_q(rng, mspec, depth + 1, safe=True)]
        return q
    if depth < 2 and rng.random() < 0.35:
        a = gen_q(rng, mspec, depth + 1)
        b = gen_q(rng, mspec, depth + 1)
        op = rng.choice(['and', 'or', 'not'])
        if op == 'not':
            return ['not', a]
        return [op, a, b]
    return [rng.choice(['gt', 'gte', 'lt']), rng.choice(ints),
            rng.choice([-5, 0, 3, 100])]


def gen_meta_value(rng, spec, app, mname, prop, uniq, safe=False):
    """A new value for a Meta property, valid for the model's current fields."""
    mspec = spec[app][mname]
    cols = [n for n, f in mspec['fields']
            if f['kind'] not in ('ManyToMany', 'Text')]
    cur = copy.deepcopy((mspec.get('meta') or {}).get(prop) or [])
    # the same entry with its columns in another order (same name for named
    # indexes / constraints): a different index on the same column set
    multi = [i for i, x in enumerate(cur)
             if len(x if isinstance(x, list) else x.get('fields') or []) > 1]
    if multi and rng.random() < 0.2:
        i = rng.choice(multi)
        if isinstance(cur[i], list):
            if sorted(cur[i]) in [sorted(x) for j, x in enumerate(cur)
                                  if j != i]:
                return None
            cur[i] = cur[i][::-1]
        else:
            cur[i]['fields'] = cur[i]['fields'][::-1]
        return cur
    if prop in ('unique_together', 'index_together'):
        choice = rng.random()
        if cur and choice < 0.35:
            cur.pop(rng.randrange(len(cur)))
            return cur
        if len(cols) >= 2:
            t = rng.sample(cols, 2 if len(cols) < 3 or rng.random() < 0.7
                           else 3)
            if t not in cur:
                if cur and choice > 0.8:
                    cur = [t]
                else:
                    cur.append(t)
                return cur
        return [] if cur else None
    if prop == 'indexes':
        if cur and rng.random() < 0.35:
            cur.pop(rng.randrange(len(cur)))
            return cur
        if not cols:
            return [] if cur else None
        k = 1 if len(cols) < 2 or rng.random() < 0.5 else 2
        fields = rng.sample(cols, k)
        if rng.random() < 0.2:
            fields[0] = '-' + fields[0]
        ix = {'fields': fields, 'name': 'ix_%s' % uniq()}
        if rng.random() < 0.35:
            q = gen_q(rng, mspec)
            if q:
                ix['condition'] = q
        cur.append(ix)
        return cur
    if prop == 'constraints':
        if cur and rng.random() < 0.2:
            # an existing constraint is redefined under its name (nothing
            # else changes): other columns for a unique constraint, another
            # bound for a check
            i = rng.randrange(len(cur))
            c = cur[i]
            if c['type'] == 'unique' and len(cols) >= 2:
                k = 1 if rng.random() < 0.4 else 2
                nf = rng.sample(cols, k)
                if nf != c['fields']:
                    c['fields'] = nf
                    return cur
            elif c['type'] == 'check':
                q = gen_q(rng, mspec, safe=safe)
                if q and q != c['check']:
                    c['check'] = q
                    return cur
        if cur and rng.random() < 0.35:
            cur.pop(rng.randrange(len(cur)))
            return cur
        if rng.random() < 0.5:
            q = gen_q(rng, mspec, safe=safe)
            if not q:
                return [] if cur else None
            cur.append({'type': 'check', 'name': 'ck_%s' % uniq(),
                        'check': q})
        else:
            if not cols:
                return [] if cur else None
            k = 1 if len(cols) < 2 or rng.random() < 0.4 else 2
            c = {'type': 'unique', 'name': 'uq_%s' % uniq(),
                 'fields': rng.sample(cols, k)}
            if rng.random() < 0.3:
                q = gen_q(rng, mspec)
                if q:
                    c['condition'] = q
            cur.append(c)
        return cur
    raise ValueError(prop)


class SpecGen(object):
    """Random model specs and edit walks, deterministic in (seed)."""

    def __init__(self, rng, apps=('app1',), kinds=None, allow_meta=True,
                 rows=False, max_models=3, names=MODEL_NAMES,
                 fields=FIELD_NAMES):
        self.rng = rng
        self.apps = list(apps)
        self.kinds = kinds
        self.allow_meta = allow_meta
        self.rows = rows
        self.max_models = max_models
        self.names = list(names)
        self.fields = list(fields)
        self._n = 0
        self.no_name_reuse = False
        self.no_callables = False
        self.used_names = set()
        self.deleted_names = set()
        # columns (table-independent: (app, model, field)) that may hold
        # duplicate values because a whole column was filled with one initial
        self.dup = set()

    def uniq(self):
        self._n += 1
        return 'g%d' % self._n

    def nondistinct(self, spec, app, mname, fname):
        """May the column hold equal non-NULL values in several rows?"""
        fd = S.get_field(spec, app, mname, fname)
        if (app, mname, fname) in self.dup or fd['kind'] == 'Boolean':
            return True
        return fd['kind'] == 'ForeignKey' and not fd.get('unique')

    def in_unique_group(self, spec, app, mname, fname):
        meta = spec[app][mname].get('meta') or {}
        for t in meta.get('unique_together') or []:
            if fname in t:
                return True
        for c in meta.get('constraints') or []:
            if c['type'] == 'unique' and fname in c['fields']:
                return True
        return False

    # -- specs
    def gen_spec(self, n_models=None):
        rng = self.rng
        spec = {a: {} for a in self.apps}
        n = n_models or rng.randint(1, self.max_models)
        names = rng.sample(self.names, n)
        for i, name in enumerate(names):
            app = self.apps[0] if len(self.apps) == 1 or i == 0 \
                else rng.choice(self.apps)
            if len(self.apps) > 1 and i > 0 and rng.random() < 0.2:
                # hostile: the same model name in two apps
                other = [a for a in self.apps if a != app and spec[a]]
                if other:
                    name = rng.choice(list(spec[other[0]]))
                    if name in spec[app]:
                        continue
            spec[app][name] = {'fields': [], 'meta': {}}
        for app, mods in spec.items():
            for mname, ms in mods.items():
                for fname in rng.sample(self.fields, rng.randint(1, 4)):
                    fdef = gen_fdef(rng, spec, app, self.kinds)
                    if fdef['kind'] == 'Boolean' or (
                            fdef['kind'] != 'ManyToMany' and self.rows):
                        pass
                    ms['fields'].append([fname, fdef])
                if rng.random() < 0.2:
                    ms['meta']['db_table'] = rng.choice(
                        ['%s_%s_extra' % (app, mname.lower()),
                         'tbl_%s' % mname.lower(), '%s_a' % app])
        # distinct table names
        seen = set()
        for app, mods in spec.items():
            for mname, ms in mods.items():
                t = S.model_table(spec, app, mname)
                if t in seen:
                    ms['meta'].pop('db_table', None)
                seen.add(S.model_table(spec, app, mname))
        if self.allow_meta:
            for app, mods in spec.items():
                for mname in mods:
                    for prop in ('unique_together', 'index_together',
                                 'indexes', 'constraints'):
                        if rng.random() < 0.25:
                            v = gen_meta_value(rng, spec, app, mname, prop,
                                               self.uniq, safe=self.rows)
                            if v:
                                spec[app][mname]['meta'][prop] = v
        if len(all_table_names(spec)) != sum(
                len(S.owned_tables(spec, a, m))
                for a, mods in spec.items() for m in mods):
            return self.gen_spec(n_models)
        for a, mods in spec.items():
            for m, ms in mods.items():
                cols = [S.column_of(n, f) for n, f in ms['fields']
                        if f['kind'] != 'ManyToMany'] + ['id']
                if len(cols) != len(set(cols)):
                    return self.gen_spec(n_models)
        return spec

    # -- edits
    def candidate_edit(self, spec, ops=None):
        """One random edit applicable to spec (or None)."""
        rng = self.rng
        apps_with = [a for a in spec if spec[a]]
        if not apps_with:
            return None
        app = rng.choice(apps_with)
        mname = rng.choice(list(spec[app]))
        ms = spec[app][mname]
        refs = meta_field_refs(ms)
        fields = ms['fields']
        ops = ops or ['add_field'] * 4 + ['delete_field'] * 3 + \
            ['rename_field'] * 3 + ['change_field'] * 5 + \
            ['change_meta'] * (4 if self.allow_meta else 0) + \
            ['rename_model'] * 2 + ['delete_model', 'delete_app']
        op = rng.choice(ops)
        if op == 'add_field':
            free = [f for f in self.fields if not S.get_field(spec, app,
                                                              mname, f)]
            if self.no_name_reuse:
                free = [f for f in free
                        if (app, mname, f) not in self.deleted_names]
            if not free:
                return None
            fdef = gen_fdef(rng, spec, app, self.kinds)
            e = {'op': op, 'app': app, 'model': mname,
                 'name': rng.choice(free), 'fdef': fdef}
            if fdef['kind'] == 'ManyToMany':
                return e
            if fdef['kind'] in ('ForeignKey', 'OneToOne'):
                # a relation column only gets a constant initial where the
                # rows of the case make it satisfiable: the target table has
                # a row with id 1 (row_counts is set by checks that insert
                # rows) and, for a unique column, at most one row is filled
                fdef['null'] = True
                counts = getattr(self, 'row_counts', None)
                if counts is not None and rng.random() < 0.5:
                    ta, tm = fdef['to'].split('.')
                    n_target = counts.get((ta, tm), 0)
                    n_own = counts.get((app, mname))
                    uniq = fdef['kind'] == 'OneToOne' or fdef.get('unique')
                    if n_target >= 1 and n_own is not None and \
                            (not uniq or n_own <= 1):
                        e['initial'] = 1
                        e['rel_initial'] = True
                        if rng.random() < 0.5:
                            fdef.pop('null')
                return e
            if not fdef.get('null') or rng.random() < 0.3:
                e['initial'] = gen_initial(rng, fdef,
                                           not self.no_callables)
                if fdef.get('unique') and self.rows:
                    # a constant fill of a UNIQUE column legitimately fails
                    # on >1 rows: outside the workload
                    fdef.pop('unique')
                self.dup.add((app, mname, e['name']))
            return e
        if op == 'delete_field':
            c = [n for n, _f in fields if n not in refs]
            if not c:
                return None
            name = rng.choice(c)
            self.deleted_names.add((app, mname, name))
            return {'op': op, 'app': app, 'model': mname, 'name': name}
        if op == 'rename_field':
            c = [n for n, _f in fields if n not in refs]
            free = [f for f in self.fields if not S.get_field(spec, app,
                                                              mname, f)]
            if not c or not free:
                return None
            old = rng.choice(c)
            fdef = S.get_field(spec, app, mname, old)
            e = {'op': op, 'app': app, 'model': mname, 'old': old,
                 'new': rng.choice(free)}
            if (app, mname, old) in self.dup:
                self.dup.add((app, mname, e['new']))
            r = rng.random()
            if fdef['kind'] == 'ManyToMany':
                if r < 0.3:
                    e['db_table'] = 'm2m_%s' % self.uniq()
            elif r < 0.25:
                e['db_column'] = S.column_of(old, fdef)   # keep the column
            elif r < 0.4:
                e['db_column'] = 'col_%s' % self.uniq()
            return e
        if op == 'change_field':
            c = [(n, f) for n, f in fields if f['kind'] != 'ManyToMany']
            if not c:
                return None
            name, fdef = rng.choice(c)
            kind = fdef['kind']
            e = {'op': op, 'app': app, 'model': mname, 'name': name,
                 'attrs': {}}
            choices = ['null', 'db_index']
            if kind == 'Char':
                choices.append('max_length')
            if kind == 'Decimal':
                choices += ['max_digits', 'decimals']
            if kind not in ('Boolean', 'Text', 'OneToOne') and not (
                    self.rows and self.nondistinct(spec, app, mname, name)):
                choices.append('unique')
            if kind in INT_KINDS + TEXT_KINDS and name not in refs:
                choices.append('type')
            if kind not in ('ForeignKey', 'OneToOne') and name not in refs:
                choices.append('db_column')
            k = 1 if rng.random() < 0.7 else 2
            for attr in rng.sample(choices, min(k, len(choices))):
                if attr == 'null':
                    new = not fdef.get('null', False)
                    e['attrs']['null'] = new
                    if not new and self.rows and (
                            fdef.get('unique') or self.in_unique_group(
                                spec, app, mname, name)):
                        # a constant fill of NULLs in a unique column/group
                        # legitimately fails on data
                        del e['attrs']['null']
                        continue
                    if not new:
                        if kind in ('ForeignKey', 'OneToOne'):
                            # needs an existing target pk: only safe w/o rows
                            if self.rows:
                                del e['attrs']['null']
                                continue
                            e['initial'] = 1
                        else:
                            e['initial'] = gen_initial(
                                rng, fdef, not self.no_callables)
                        self.dup.add((app, mname, name))
                elif attr == 'db_index':
                    e['attrs']['db_index'] = not fdef.get(
                        'db_index', kind in ('ForeignKey', 'OneToOne'))
                elif attr == 'unique':
                    e['attrs']['unique'] = not fdef.get('unique', False)
                elif attr == 'max_length':
                    e['attrs']['max_length'] = rng.choice(
                        [x for x in (5, 10, 20, 50, 100, 255)
                         if x != fdef.get('max_length')])
                elif attr == 'max_digits':
                    e['attrs']['max_digits'] = rng.choice(
                        [x for x in (6, 8, 10, 12, 14)
                         if x != fdef.get('max_digits')])
                elif attr == 'decimals':
                    e['attrs']['decimal_places'] = rng.choice(
                        [x for x in (0, 1, 2, 3, 4)
                         if x != fdef.get('decimal_places')])
                elif attr == 'db_column':
                    e['attrs']['db_column'] = 'col_%s' % self.uniq()
                elif attr == 'type':
                    if kind in INT_KINDS:
                        nk = rng.choice([x for x in INT_KINDS if x != kind
                                         and (x != 'PositiveInteger'
                                              or not self.rows)])
                    else:
                        nk = 'Text' if kind == 'Char' else 'Char'
                    e['new_kind'] = nk
                    if nk == 'Char':
                        e['attrs']['max_length'] = 50
                    if nk == 'Text' and fdef.get('unique'):
                        pass
            if 'unique' in e['attrs'] and e['attrs']['unique'] and \
                    (app, mname, name) in self.dup:
                del e['attrs']['unique']
            if e.get('new_kind') and len(e['attrs']) > (
                    1 if 'max_length' in e['attrs'] else 0):
                # keep type changes pure (type [+ its max_length])
                e['attrs'] = {k2: v for k2, v in e['attrs'].items()
                              if k2 == 'max_length'}
                e.pop('initial', None)
            if not e['attrs'] and not e.get('new_kind'):
                return None
            if 'null' not in e['attrs'] and not e.get('new_kind') and \
                    e.get('initial') is None and fdef.get('null') and \
                    kind in ('Integer', 'BigInteger', 'Char', 'Text',
                             'Boolean') and \
                    zlib.crc32(repr((sorted(e['attrs'].items()), mname,
                                     name)).encode()) % 3 == 0:
                # legal but pointless: an initial value on a change that
                # does not touch null (existing NULLs must stay NULL); drawn
                # without consuming randomness
                e['initial'] = {'Integer': 7, 'BigInteger': 7, 'Char': 'u',
                                'Text': 'u', 'Boolean': True}[kind]
                e['useless_initial'] = True
            return e
        if op == 'change_meta':
            prop = rng.choice(['unique_together', 'index_together',
                               'indexes', 'constraints'])
            v = gen_meta_value(rng, spec, app, mname, prop, self.uniq,
                               safe=self.rows)
            if v is None or v == ((ms.get('meta') or {}).get(prop) or []):
                return None
            if prop in ('unique_together', 'constraints') and self.rows:
                for t in (v if prop == 'unique_together' else
                          [c.get('fields') or [] for c in v]):
                    if t and all(self.nondistinct(spec, app, mname, f)
                                 for f in t):
                        return None
            return {'op': op, 'app': app, 'model': mname, 'prop': prop,
                    'value': v}
        if op == 'rename_model':
            free = [n for n in self.names if n not in spec[app]]
            if not free:
                return None
            new = rng.choice(free)
            cur_table = S.model_table(spec, app, mname)
            r = rng.random()
            if r < 0.5:
                table = S.default_table(app, new)
            elif r < 0.8:
                table = cur_table
            else:
                table = 'tbl_%s' % self.uniq()
            if table != cur_table and table in all_table_names(spec):
                return None
            for (a2, m2, f2) in list(self.dup):
                if (a2, m2) == (app, mname):
                    self.dup.add((app, new, f2))
            return {'op': op, 'app': app, 'old': mname, 'new': new,
                    'db_table': table}
        if op == 'delete_model':
            if [r for r in referrers(spec, app, mname)
                    if (r[0], r[1]) != (app, mname)]:
                return None
            return {'op': op, 'app': app, 'model': mname}
        if op == 'delete_app':
            for m in spec[app]:
                if [r for r in referrers(spec, app, m) if r[0] != app]:
                    return None
            return {'op': op, 'app': app}
        if op == 'rename_app':
            free = [a for a in ('app1', 'app2', 'app3')
                    if not spec.get(a)]
            if not free:
                return None
            e = {'op': op, 'app': app, 'new_app': rng.choice(free)}
            if len(spec[app]) > 1 and rng.random() < 0.3:
                e['model_names'] = sorted(rng.sample(
                    list(spec[app]), rng.randint(1, len(spec[app]) - 1)))
            return e
        return None


def edit_key(e):
    return S.canon(e)
