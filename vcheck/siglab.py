"""siglab: drive the real signature / mutator / SQLite-backend / executor code
in-process on in-memory databases, with statement tracing."""
import re
import traceback

from . import dbsnap
from . import specs as S
from .labenv import reset_db

MUTATING_RE = re.compile(
    r'^\s*(CREATE|ALTER|DROP|INSERT|UPDATE|DELETE|REPLACE|VACUUM)\b', re.I)
REBUILD_CREATE_RE = re.compile(r'^\s*CREATE TABLE "TEMP_TABLE"', re.I)
REBUILD_FROM_RE = re.compile(
    r'^\s*INSERT INTO "TEMP_TABLE".*\bFROM "([^"]+)"', re.I | re.S)
REBUILD_RENAME_RE = re.compile(
    r'^\s*ALTER TABLE "TEMP_TABLE" RENAME TO "([^"]+)"', re.I)


def exc_site(exc):
    """Innermost django_evolution frame of an exception: 'file.py:function'."""
    tb = traceback.extract_tb(exc.__traceback__)
    site = None
    for fr in tb:
        fn = fr.filename.replace('\\', '/')
        if '/django_evolution/' in fn and '/tests/' not in fn:
            site = '%s:%s' % (fn.split('/django_evolution/', 1)[1], fr.name)
    return site or 'outside'


def exc_item(kind, exc, **extra):
    msg = str(exc)
    msg = re.sub(r'\s+', ' ', msg)[:300]
    d = {'type': kind, 'exc': type(exc).__name__, 'site': exc_site(exc),
         'msg': msg}
    d.update(extra)
    return d


class StatementTrace(object):
    """execute_wrapper recording every statement on one connection."""

    def __init__(self):
        self.events = []

    def __call__(self, execute, sql, params, many, context):
        ev = {'sql': sql, 'params': _jsonable(params), 'ok': True}
        self.events.append(ev)
        try:
            return execute(sql, params, many, context)
        except Exception as e:
            ev['ok'] = False
            ev['exc'] = '%s: %s' % (type(e).__name__, e)
            raise

    def mutating(self):
        return [e for e in self.events if MUTATING_RE.match(e['sql'])]

    def rebuilds(self):
        """Tables rebuilt (TEMP_TABLE dance), in order, with multiplicity."""
        out = []
        for e in self.events:
            m = REBUILD_RENAME_RE.match(e['sql'])
            if m and e['ok']:
                out.append(m.group(1))
        return out


RENAME_TABLE_RE = re.compile(
    r'^\s*ALTER TABLE "([^"]+)" RENAME TO "([^"]+)"', re.I)


def rebuilt_lineage(traces):
    """Final names of all tables that were rebuilt at some point in the given
    traces (following later ALTER TABLE ... RENAME TO)."""
    cur = set()
    for tr in traces:
        for e in tr.events:
            if not e['ok']:
                continue
            m = RENAME_TABLE_RE.match(e['sql'])
            if not m:
                continue
            old, new = m.group(1), m.group(2)
            if old == 'TEMP_TABLE':
                cur.add(new)
            elif old in cur:
                cur.discard(old)
                cur.add(new)
    return cur


def _jsonable(params):
    if params is None:
        return None
    out = []
    for p in params:
        if isinstance(p, (int, float, str, type(None))):
            out.append(p)
        else:
            out.append(repr(p))
    return out


def sql_kinds(trace):
    """Coarse statement kinds seen (for evidence histograms)."""
    kinds = {}
    for e in trace.mutating():
        s = e['sql'].strip()
        m = re.match(r'(CREATE UNIQUE INDEX|CREATE INDEX|CREATE TABLE|'
                     r'ALTER TABLE \S+ RENAME COLUMN|ALTER TABLE \S+ RENAME TO|'
                     r'ALTER TABLE \S+ ADD COLUMN|DROP TABLE|DROP INDEX|'
                     r'INSERT INTO|UPDATE|DELETE|VACUUM)', s, re.I)
        k = re.sub(r'"[^"]+"|\S+\.\S+', '', m.group(1)).upper() if m else \
            s.split(' ', 1)[0].upper()
        k = re.sub(r'\s+', ' ', k).strip()
        kinds[k] = kinds.get(k, 0) + 1
    return kinds


class Lab(object):
    """One database under evolution ('default' unless told otherwise)."""

    def __init__(self, alias='default'):
        self.alias = alias
        self.conn = None
        self.psig = None

    # -- set-up
    def start(self, spec, rows=None):
        """Fresh database holding spec's tables (Django schema editor) and the
        given rows; self.psig = real signature of spec's models."""
        self.conn = reset_db(self.alias)
        classes = S.build_models(spec)
        S.create_tables(classes, self.alias)
        self.psig = S.project_sig(classes, apps_order=list(spec))
        if rows:
            self.insert_rows(rows)
        return classes

    def insert_rows(self, rows):
        """rows: {table: [ {col: value}, ... ]} inserted with raw SQL.  Rows
        the schema rejects (UNIQUE/CHECK) are skipped and rows left with a
        dangling foreign key are removed again, so whatever remains is a
        consistent database; the caller snapshots it as the baseline."""
        from django.db import utils as dbu
        cur = self.conn.cursor()
        try:
            cur.execute('PRAGMA foreign_keys = OFF')
            for table, rws in rows.items():
                for r in rws:
                    cols = list(r)
                    try:
                        cur.execute(
                            'INSERT INTO "%s" (%s) VALUES (%s)' % (
                                table, ', '.join('"%s"' % c for c in cols),
                                ', '.join(['%s'] * len(cols))),
                            [r[c] for c in cols])
                    except dbu.IntegrityError:
                        pass
            for _round in range(10):
                cur.execute('PRAGMA foreign_key_check')
                bad = cur.fetchall()
                if not bad:
                    break
                for table, rowid, _parent, _fkid in bad:
                    cur.execute('DELETE FROM "%s" WHERE rowid = %%s' % table,
                                [rowid])
            cur.execute('PRAGMA foreign_keys = ON')
        finally:
            cur.close()

    def snapshot(self, with_rows=True):
        cur = self.conn.cursor()
        try:
            return dbsnap.snapshot(cur, with_rows=with_rows)
        finally:
            cur.close()

    def fk_check(self):
        cur = self.conn.cursor()
        try:
            return dbsnap.fk_check(cur)
        finally:
            cur.close()

    # -- the code under observation
    def evolve(self, app_label, mutations, psig=None, optimise=True,
               execute=True, trace=None):
        """Run mutations for one app the way EvolveAppTask does: DatabaseState
        scanned from the real database, one AppMutator, to_sql(), SQLExecutor.

        Returns dict(ok, error item|None, sql, trace, psig(after), mutator).
        On success self.psig is advanced.
        """
        from django_evolution.db.state import DatabaseState
        from django_evolution.mutators import AppMutator
        from django_evolution.utils.sql import SQLExecutor
        psig = psig if psig is not None else self.psig
        work_sig = psig.clone()
        trace = trace if trace is not None else StatementTrace()
        res = {'ok': False, 'error': None, 'sql': None, 'trace': trace,
               'psig': None, 'stage': None}
        try:
            res['stage'] = 'mutate'
            dbstate = DatabaseState(self.alias, scan=True)
            am = AppMutator(app_label=app_label, project_sig=work_sig,
                            database_state=dbstate, database=self.alias)
            if optimise:
                am.run_mutations(mutations)
            else:
                for m in mutations:
                    am.run_mutation(m)
            res['stage'] = 'to_sql'
            sql = am.to_sql()
            res['sql'] = sql
            res['can_simulate'] = am.can_simulate
            if execute:
                res['stage'] = 'execute'
                with self.conn.execute_wrapper(trace):
                    with SQLExecutor(self.alias,
                                     check_constraints=False) as ex:
                        ex.run_sql(sql, execute=True)
            res['ok'] = True
            res['psig'] = work_sig
            self.psig = work_sig
        except Exception as e:    # noqa: observed, classified by the oracle
            res['error'] = exc_item('EXEC_ERROR', e, stage=res['stage'])
            last = getattr(e, 'last_sql_statement', None)
            if last:
                res['error']['last_sql'] = str(last[0])[:200]
            self._recover()
        return res

    def _recover(self):
        """After a failed execution discard the connection (and with it the
        in-memory database); start() reopens it."""
        from django.db.backends.base.base import BaseDatabaseWrapper
        try:
            BaseDatabaseWrapper.close(self.conn)
        except Exception:
            pass


def fresh_snapshot(spec, alias='fresh', register=True):
    """Schema Django itself creates for spec's models, on a scratch database.
    Leaves spec's classes registered in the app registry."""
    conn = reset_db(alias)
    classes = S.build_models(spec)
    S.create_tables(classes, alias)
    cur = conn.cursor()
    try:
        return classes, dbsnap.snapshot(cur, with_rows=False)
    finally:
        cur.close()


def simulate_one(psig, app_label, mutation, alias='default'):
    """Real run_simulation of one mutation on psig (in place).
    Returns None or an error item."""
    try:
        mutation.run_simulation(app_label=app_label, project_sig=psig,
                                database_state=None, database=alias)
        return None
    except Exception as e:
        return exc_item('SIM_ERROR', e)


def sig_equal(a, b):
    """(equal, diff_text) using both == and Diff in both directions."""
    from django_evolution.diff import Diff
    d1 = Diff(a, b)
    d2 = Diff(b, a)
    e1 = d1.is_empty(ignore_apps=False)
    e2 = d2.is_empty(ignore_apps=False)
    return (a == b), e1, e2, (str(d1) if not e1 else ''), \
        (str(d2) if not e2 else '')
