#!/bin/sh
# Offline setup after a fresh restore: optional third-party deps into the
# git-ignored .deps (only icontract, from the local wheelhouse) and a
# self-test that the framework imports django-evolution from /repo.
cd "$(dirname "$0")" || exit 1
if [ ! -d .deps/icontract ]; then
  /venv/bin/pip install --quiet --no-index --find-links /opt/veriftools/wheels \
      --target .deps icontract >/dev/null 2>&1 || echo "setup: icontract not installed (checks fall back to plain wrappers)"
fi
PYTHONPATH="/repo:$(pwd)" /venv/bin/python - <<'PY'
from vcheck import labenv
labenv.setup()
import django_evolution
print('setup ok: django_evolution from', django_evolution.__file__)
PY
